/- C16 helper lemmas, part 4: invariants of ordered streaming and of the UTXO scan (re-orderer + consumer):
the blocks handed to the consumer are exactly `lo, lo+1, …` in order; the consumer-facing channels are closed
only after a cancel, after an error was handed over, or after the whole range was handed over. -/
import BtcVerif.Proofs.StreamSafety

namespace BtcVerif.Model.Stream
open BtcVerif.Gen.Guards

/-- blocks handed to the consumer: returned to the caller, or received by `next()` and about to be returned -/
def handed (s : State) : List Nat := s.delivered ++ (match s.cph with | .got h => [h] | _ => [])

/-- errors handed to the consumer -/
def errHanded (s : State) : Nat := s.errs + (if s.cph = .gotErr then 1 else 0)

theorem range'_snoc {lo cur : Nat} (h : lo ≤ cur) :
    List.range' lo (cur - lo) ++ [cur] = List.range' lo (cur + 1 - lo) := by
  have : cur + 1 - lo = (cur - lo) + 1 := by omega
  rw [this, List.range'_concat]; congr 2; omega

structure Inv2 (P : Params) (s : State) : Prop where
  hp : handed s = List.range' P.lo (s.cur - P.lo)
  lo : P.lo ≤ s.cur
  hi : s.cur ≤ P.hi + 1
  ea : (s.rph.early = true ∨ s.rph = .s0) → s.cur = P.lo ∧ s.cph ≠ .gotErr ∧ s.errs = 0
  sn : ∀ h, s.rph = .snd h → h = s.cur ∧ s.cur ≤ P.hi
  bf : ∀ h ∈ s.buf, h ≤ P.hi
  cn : P.mode = .utxo → s.cnt = s.delivered.length
  nfs : s.outClosed = true → s.cancel0 = true ∨ s.cancel1 = true ∨ 0 < errHanded s ∨ s.cur = P.hi + 1
  ec : (s.cph = .gotEnd ∨ s.ended = true) → s.outClosed = true
  en : s.ended = true → s.cph = .finished
  rt : s.ret = some true → P.hi < P.lo + s.cnt

theorem inv2_init {P : Params} (hP : P.lo ≤ P.hi) (hm : P.mode ≠ .unordered) : Inv2 P (init P) := by
  refine ⟨?_, ?_, ?_, ?_, ?_, ?_, ?_, ?_, ?_, ?_, ?_⟩ <;> simp_all [init, handed] <;> omega

theorem mem_insertSorted {h x : Nat} {xs : List Nat} : x ∈ insertSorted h xs ↔ x = h ∨ x ∈ xs := by
  induction xs with
  | nil => simp [insertSorted]
  | cons y ys ih =>
    unfold insertSorted
    split
    · simp
    · simp only [List.mem_cons, ih]; constructor <;> (intro h; rcases h with h | h | h <;> simp_all)

set_option maxHeartbeats 1600000 in
theorem inv2_step {P : Params} (hP : P.lo ≤ P.hi) (hm : P.mode ≠ .unordered) {s l s'}
    (h1 : Inv1 P s) (h : Inv2 P s) (hst : Step P s l s') : Inv2 P s' := by
  obtain ⟨_, hI⟩ := step_inv hst
  obtain ⟨hhp, hlo, hhi, hea, hsn, hbf, hcn, hnfs, hec, hen, hrt⟩ := h
  have hro := h1.ro hm
  cases hI with
  | wLocal i w ph' l hw hl =>
    refine ⟨?_, ?_, ?_, ?_, ?_, ?_, ?_, ?_, ?_, ?_, ?_⟩ <;> simp_all [setW, handed, errHanded]
  | wGiveC i w g hw hp hm' hc => exact absurd hm' hm
  | wErrC i w hw hp hm' hc => exact absurd hm' hm
  | wGiveR i w g hw hp hm' hr =>
    have hle : w.pos ≤ P.hi := (h1.wok i w hw).2.2 (by simp [hp]) (by simp [hp])
    refine ⟨?_, ?_, ?_, ?_, ?_, ?_, ?_, ?_, ?_, ?_, ?_⟩
    case refine_6 =>
      intro h hh; simp only [setW] at hh
      split at hh
      · rcases mem_insertSorted.mp hh with rfl | hh
        · exact hle
        · exact hbf h hh
      · exact hbf h hh
    all_goals (simp_all [setW, handed, errHanded, RPhase.early])
  | wErrR i w hw hp hm' hr =>
    refine ⟨?_, ?_, ?_, ?_, ?_, ?_, ?_, ?_, ?_, ?_, ?_⟩ <;> simp_all [setW, handed, errHanded, RPhase.early]
  | closer hs hc hall =>
    refine ⟨?_, ?_, ?_, ?_, ?_, ?_, ?_, ?_, ?_, ?_, ?_⟩ <;> simp_all [handed, errHanded]
  | rF2ok hr | rF2nolink hr =>
    have hea' := hea (by simp [hr, RPhase.early])
    unfold afterFirst
    simp only [blockscan_BlockScanner_streamBlocksUnordered_0]
    split
    · refine ⟨?_, ?_, ?_, ?_, ?_, ?_, ?_, ?_, ?_, ?_, ?_⟩ <;> simp_all [handed, errHanded, RPhase.early]
    · rename_i hne2
      have : ¬ (P.hi < P.lo + 1) := by omega
      simp only [this, decide_false, Bool.false_eq_true, if_false]
      refine ⟨?_, ?_, ?_, ?_, ?_, ?_, ?_, ?_, ?_, ?_, ?_⟩ <;> simp_all [handed, errHanded, RPhase.early]
  | rS0 hr hc =>
    have hea' := hea (by simp [hr])
    unfold loopHead
    split <;> (refine ⟨?_, ?_, ?_, ?_, ?_, ?_, ?_, ?_, ?_, ?_, ?_⟩ <;>
      simp_all [exitX, handed, errHanded, RPhase.early] <;> try omega)
  | rRelLoop hr hc1' hc2' =>
    unfold loopHead
    split <;> (refine ⟨?_, ?_, ?_, ?_, ?_, ?_, ?_, ?_, ?_, ?_, ?_⟩ <;>
      simp_all [exitX, handed, errHanded, RPhase.early] <;> try omega)
  | rRelSend hr h1' h2' =>
    have := hbf _ h2'
    refine ⟨?_, ?_, ?_, ?_, ?_, ?_, ?_, ?_, ?_, ?_, ?_⟩
    case refine_6 => intro h hh; exact hbf h (List.mem_of_mem_erase hh)
    all_goals (simp_all [handed, errHanded, RPhase.early])
  | rSnd h hr hc =>
    obtain ⟨rfl, hle⟩ := hsn h hr
    have hd : s.delivered = List.range' P.lo (s.cur - P.lo) := by simpa [handed, hc] using hhp
    refine ⟨?_, ?_, ?_, ?_, ?_, ?_, ?_, ?_, ?_, ?_, ?_⟩
    case refine_1 => simp only [handed]; rw [hd]; exact range'_snoc hlo
    all_goals (simp_all [handed, errHanded, RPhase.early] <;> try omega)
  | rLoopCancel hr hc =>
    simp only [Bool.or_eq_true] at hc
    refine ⟨?_, ?_, ?_, ?_, ?_, ?_, ?_, ?_, ?_, ?_, ?_⟩
    case refine_8 => intro _; rcases hc with hc | hc <;> simp [exitX, hc]
    all_goals (simp_all [exitX, handed, errHanded, RPhase.early])
  | rF0 hr | rF1ok hr | rF1err hr | rF1b hr | rF2err hr | rLoopClosed hr hc
  | rRelErr hr h1' h2' | rSendErr hr hc =>
    have hea' := hea
    refine ⟨?_, ?_, ?_, ?_, ?_, ?_, ?_, ?_, ?_, ?_, ?_⟩ <;> simp_all [exitX, handed, errHanded, RPhase.early]
  | cRetErr hc hm' =>
    rcases hc with hc | hc <;>
    (refine ⟨?_, ?_, ?_, ?_, ?_, ?_, ?_, ?_, ?_, ?_, ?_⟩ <;> simp_all [handed, errHanded])
  | cDeliver h hc =>
    refine ⟨?_, ?_, ?_, ?_, ?_, ?_, ?_, ?_, ?_, ?_, ?_⟩
    case refine_7 => intro hu; simp [hu, hcn hu]
    case refine_11 => intro hrt'; have := (h1.c1 (.inr (by simp_all))).2; simp_all
    all_goals (simp_all [handed, errHanded])
  | cCall hc hm' | cRetOk hc hm' hn | cSeeEnd hc hx | cErr hc hm' | cEnd hc hm'
  | envCancel hc =>
    refine ⟨?_, ?_, ?_, ?_, ?_, ?_, ?_, ?_, ?_, ?_, ?_⟩ <;>
      simp_all [handed, errHanded, State.streamClosed] <;> try omega

theorem reachable_inv1 {P : Params} (hP : P.lo ≤ P.hi) {s} (hr : Reachable P s) : Inv1 P s := by
  induction hr with
  | init => exact inv1_init hP
  | step _ hst ih => exact inv1_step hP ih hst

theorem reachable_inv2 {P : Params} (hP : P.lo ≤ P.hi) (hm : P.mode ≠ .unordered) {s} (hr : Reachable P s) :
    Inv2 P s := by
  induction hr with
  | init => exact inv2_init hP hm
  | step hr' hst ih => exact inv2_step hP hm (reachable_inv1 hP hr') ih hst

theorem prefix_range' {xs ys : List Nat} {lo k : Nat} (h : xs ++ ys = List.range' lo k) :
    xs = List.range' lo xs.length ∧ xs.length ≤ k := by
  have hl : xs.length + ys.length = k := by simpa using congrArg List.length h
  have : xs = (xs ++ ys).take xs.length := by simp
  rw [h, List.take_range'_of_length_ge (by omega)] at this
  exact ⟨this, by omega⟩

/-- the requested inclusive range `[lo..hi]` -/
def fullRange (P : Params) : List Nat := List.range' P.lo (P.hi + 1 - P.lo)

theorem no_panic_thm {P : Params} (hP : P.lo ≤ P.hi) {s} (hr : Reachable P s) : s.panicked = false :=
  (reachable_inv1 hP hr).np

theorem ordered_prefix_thm {P : Params} (hP : P.lo ≤ P.hi) (hm : P.mode ≠ .unordered) {s} (hr : Reachable P s) :
    s.delivered = List.range' P.lo s.delivered.length ∧ s.delivered.length ≤ P.hi + 1 - P.lo := by
  have h2 := reachable_inv2 hP hm hr
  have hp := prefix_range' (by simpa [handed] using h2.hp)
  have := h2.hi
  exact ⟨hp.1, by omega⟩

theorem no_false_success_ordered_thm {P : Params} (hP : P.lo ≤ P.hi) (hm : P.mode = .ordered) {s}
    (hr : Reachable P s) (he : s.ended = true) (hc : s.cancel0 = false) (herr : s.errs = 0) :
    s.delivered = fullRange P := by
  have hm' : P.mode ≠ .unordered := by simp [hm]
  have h1 := reachable_inv1 hP hr
  have h2 := reachable_inv2 hP hm' hr
  have hfin := h2.en he
  have hcl := h2.ec (.inr he)
  have hc1 : s.cancel1 ≠ true := by intro h; have := (h1.c1 (.inl h)).1; simp [hm] at this
  have hcur : s.cur = P.hi + 1 := by
    rcases h2.nfs hcl with h | h | h | h
    · simp [hc] at h
    · exact absurd h hc1
    · simp [errHanded, hfin, herr] at h
    · exact h
  have := h2.hp
  simp only [handed, hfin, List.append_nil] at this
  rw [this, hcur, fullRange]

theorem utxo_success_complete_thm {P : Params} (hP : P.lo ≤ P.hi) (hm : P.mode = .utxo) {s}
    (hr : Reachable P s) (hret : s.ret = some true) : s.delivered = fullRange P := by
  have hm' : P.mode ≠ .unordered := by simp [hm]
  have h2 := reachable_inv2 hP hm' hr
  have hp := prefix_range' (by simpa [handed] using h2.hp)
  have := h2.rt hret
  have := h2.cn hm
  have := h2.hi
  have hl : s.delivered.length = P.hi + 1 - P.lo := by omega
  rw [hp.1, hl, fullRange]

end BtcVerif.Model.Stream
