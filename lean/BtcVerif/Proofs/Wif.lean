/-
  Helper lemmas for C10: WIF strings. Core Lean only.
-/
import BtcVerif.Model.Wif
import BtcVerif.Proofs.Base58
import BtcVerif.Proofs.Address

namespace BtcVerif.Proofs.Wif
open BtcVerif BtcVerif.Model BtcVerif.Model.Wif BtcVerif.Gen.Guards

/-- the key / version / flag split as a function of the checked payload -/
def splitWif : Bytes → Outcome (Bytes × Nat × Bool)
  | [] => .err
  | version :: rest =>
    if rest.length = 32 then .ok (rest, version.toNat, false)
    else if rest.length = 33 then
      if rest[32]? = some 1 then .ok (rest.take 32, version.toNat, true) else .err
    else .err

theorem decode_of_payload (ck : Bytes → Bytes) (s d : Bytes) (h : Base58Check.decode ck s = .ok d) :
    decode ck s = splitWif d := by
  unfold decode splitWif
  rw [h]
  simp only [wif_Decode_0, wif_Decode_1, wif_Decode_2]
  cases d with
  | nil => simp
  | cons version rest =>
    simp only [List.length_cons]
    by_cases h32 : rest.length = 32
    · have a : ¬ ((rest.length : Int) + 1 < 33) := by omega
      have b : ¬ ((rest.length : Int) + 1 > 34) := by omega
      have c : ¬ ((rest.length : Int) + 1 = 34) := by omega
      have e : ¬ rest.length < 32 := by omega
      simp [a, b, c, e, h32]
      exact List.take_of_length_le (by omega)
    · by_cases h33 : rest.length = 33
      · have a : ¬ ((rest.length : Int) + 1 < 33) := by omega
        have b : ¬ ((rest.length : Int) + 1 > 34) := by omega
        have c : ((rest.length : Int) + 1 = 34) := by omega
        have e : ¬ rest.length < 32 := by omega
        have hlt : 32 < rest.length := by omega
        simp only [a, b, c, e, h32, h33, decide_true, decide_false, Bool.or_self, if_false, if_true,
          Bool.false_eq_true, List.getElem?_cons_succ]
        rw [List.getElem?_eq_getElem hlt]
        simp only [Option.some.injEq]
        by_cases hf : rest[32] = 1
        · simp [hf]
        · have : ¬ rest[32].toNat = 1 := by
            intro h'; apply hf
            exact UInt8.toNat_inj.mp (by simpa using h')
          simp [hf, this]
      · have hc : ((rest.length : Int) + 1 < 33) ∨ ((rest.length : Int) + 1 > 34) := by omega
        rcases hc with hc | hc <;> simp [hc, h32, h33]

theorem decode_encode (ck : Bytes → Bytes) (hck : ∀ x, (ck x).length = 4) (k : Bytes)
    (hk : k.length = 32) (v : Nat) (hv : v < 256) (c : Bool) :
    ∃ s, encode ck k v c = .ok s ∧ decode ck s = .ok (k, v, c) := by
  have hg : wif_encode_0 (privkey_isnil := false) (len_privkey := k.length) = false := by
    simp [wif_encode_0, hk]
  unfold encode
  rw [hg]
  simp only [Bool.false_eq_true, if_false, wif_encode_1]
  refine ⟨_, rfl, ?_⟩
  unfold Base58Check.encodeVersion
  rw [decode_of_payload ck _ _ (Base58.Check.decode_encode ck hck _),
    Address.versionBytes_small (by omega)]
  unfold splitWif
  cases c with
  | true =>
    have h1 : ¬ (k ++ [1]).length = 32 := by simp [hk]
    have h2 : (k ++ [1]).length = 33 := by simp [hk]
    have h3 : (k ++ [(1 : UInt8)])[32]? = some 1 := by
      rw [List.getElem?_append_right (by omega)]; simp [hk]
    simp only [if_true, List.singleton_append, h1, h2, h3, if_false, Address.toNat_ofNat_lt hv]
    simp [List.take_left' hk]
  | false =>
    simp [hk, Address.toNat_ofNat_lt hv]

theorem encode_decode (ck : Bytes → Bytes) (s k : Bytes) (v : Nat) (c : Bool)
    (hd : decode ck s = .ok (k, v, c)) : k.length = 32 ∧ v < 256 ∧ encode ck k v c = .ok s := by
  cases hp : Base58Check.decode ck s with
  | err => unfold decode at hd; rw [hp] at hd; cases hd
  | panic => unfold decode at hd; rw [hp] at hd; cases hd
  | ok d =>
    have henc := Base58.Check.encode_decode ck s d hp
    rw [decode_of_payload ck s d hp] at hd
    unfold splitWif at hd
    cases d with
    | nil => cases hd
    | cons version rest =>
      simp only at hd
      have hvlt := version.toNat_lt
      split at hd
      · rename_i h32
        injection hd with hd; injection hd with hk hd; injection hd with hv hc
        subst hk hv hc
        refine ⟨h32, hvlt, ?_⟩
        have hg : wif_encode_0 (privkey_isnil := false) (len_privkey := rest.length) = false := by
          simp [wif_encode_0, h32]
        unfold encode
        rw [hg]
        simp only [Bool.false_eq_true, if_false, wif_encode_1]
        unfold Base58Check.encodeVersion
        rw [Address.versionBytes_small (by omega)]
        simp [henc]
      · split at hd
        · rename_i _ h33
          split at hd
          · rename_i hflag
            injection hd with hd; injection hd with hk hd; injection hd with hv hc
            subst hk hv hc
            have hl : (rest.take 32).length = 32 := by simp; omega
            refine ⟨hl, hvlt, ?_⟩
            have hg : wif_encode_0 (privkey_isnil := false) (len_privkey := (rest.take 32).length) = false := by
              simp [wif_encode_0, hl]
            unfold encode
            rw [hg]
            simp only [Bool.false_eq_true, if_false, wif_encode_1, if_true]
            unfold Base58Check.encodeVersion
            rw [Address.versionBytes_small (by omega)]
            -- rest = take 32 rest ++ [1]
            have hrest : rest.take 32 ++ [1] = rest := by
              have hd1 : rest.drop 32 = [1] := by
                have hlen : (rest.drop 32).length = 1 := by simp; omega
                cases hdr : rest.drop 32 with
                | nil => rw [hdr] at hlen; simp at hlen
                | cons x xs =>
                  rw [hdr] at hlen
                  have hxs : xs = [] := by
                    cases xs with
                    | nil => rfl
                    | cons _ _ => simp at hlen
                  subst hxs
                  have hx : rest[32]? = some x := by
                    have := List.getElem?_drop (xs := rest) (i := 32) (j := 0)
                    rw [hdr] at this
                    simpa using this.symm
                  rw [hx] at hflag
                  injection hflag with hflag
                  rw [hflag]
              rw [← hd1, List.take_append_drop]
            simp only [UInt8.ofNat_toNat, List.singleton_append]
            rw [hrest]
            simp [henc]
          · cases hd
        · cases hd

/-- the acceptance condition: a Base58Check payload of 33 bytes, or of 34 bytes ending in 01 -/
theorem accepts_iff (ck : Bytes → Bytes) (s : Bytes) :
    (∃ r, decode ck s = .ok r) ↔
      ∃ d, Base58Check.decode ck s = .ok d ∧ (d.length = 33 ∨ (d.length = 34 ∧ d[33]? = some 1)) := by
  constructor
  · rintro ⟨r, hr⟩
    cases hp : Base58Check.decode ck s with
    | err => unfold decode at hr; rw [hp] at hr; cases hr
    | panic => unfold decode at hr; rw [hp] at hr; cases hr
    | ok d =>
      refine ⟨d, rfl, ?_⟩
      rw [decode_of_payload ck s d hp] at hr
      unfold splitWif at hr
      cases d with
      | nil => cases hr
      | cons version rest =>
        simp only at hr
        split at hr
        · left; simp; omega
        · split at hr
          · split at hr
            · rename_i h33 hflag
              right
              exact ⟨by simp; omega, by simpa using hflag⟩
            · cases hr
          · cases hr
  · rintro ⟨d, hp, hshape⟩
    rw [decode_of_payload ck s d hp]
    unfold splitWif
    cases d with
    | nil => simp at hshape
    | cons version rest =>
      simp only [List.length_cons, List.getElem?_cons_succ] at hshape
      rcases hshape with h | ⟨h, hf⟩
      · have : rest.length = 32 := by omega
        simp [this]
      · have h1 : ¬ rest.length = 32 := by omega
        have h2 : rest.length = 33 := by omega
        refine ⟨(rest.take 32, version.toNat, true), ?_⟩
        show (if rest.length = 32 then _ else _) = _
        rw [if_neg h1, if_pos h2, if_pos hf]

theorem decode_ne_panic (ck : Bytes → Bytes) (s : Bytes) : decode ck s ≠ .panic := by
  cases hp : Base58Check.decode ck s with
  | err => unfold decode; rw [hp]; simp
  | panic => exact absurd hp (Base58.Check.decode_ne_panic _ _)
  | ok d =>
    rw [decode_of_payload ck s d hp]
    unfold splitWif
    cases d with
    | nil => simp
    | cons version rest =>
      simp only
      split
      · simp
      · split
        · split <;> simp
        · simp

end BtcVerif.Proofs.Wif
