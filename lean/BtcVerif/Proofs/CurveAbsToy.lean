/-
  The hypotheses of `Proofs/CurveAbs.lean` are satisfiable: a genuine small curve of the secp256k1
  family, `y² = x³ + 7` over F₄₃ (43 ≡ 3 mod 4, so `c^((p+1)/4) = c^11` is the square-root
  exponentiation), which has 31 points (prime order), generator `(2, 12)`. The group is `ZMod 31`,
  `xy k = k·G` computed with ekliptic's affine chord/tangent formulas (`AddAffine`), inverses by
  Fermat. Every field of `FieldHyp` / `CurveAbs` is discharged by kernel evaluation over the finite
  ranges (`decide`) plus two inductions — no axioms.
-/
import BtcVerif.Proofs.CurveAbs

namespace BtcVerif.Proofs.Toy
open BtcVerif BtcVerif.Model.ECC

/-- inverse in F₄₃ by Fermat -/
def finv (a : Nat) : Nat := a ^ 41 % 43

/-- `ekliptic.AddAffine` over F₄₃ (same case split: neutral element, opposite points, tangent, chord) -/
def add (P Q : Pt) : Pt :=
  if P.1 = 0 ∧ P.2 = 0 then Q
  else if Q.1 = 0 ∧ Q.2 = 0 then P
  else if P.1 = Q.1 ∧ P.2 ≠ Q.2 then (0, 0)
  else
    let m := if P.1 = Q.1 then 3 * P.1 * P.1 * finv (2 * P.2) % 43
             else (Q.2 + 43 - P.2) * finv (Q.1 + 43 - P.1) % 43
    let x3 := (m * m + 2 * 43 - P.1 - Q.1) % 43
    (x3, (m * (P.1 + 43 - x3) + 43 - P.2) % 43)

/-- naive repeated addition -/
def mulNat : Nat → Pt → Pt
  | 0, _ => (0, 0)
  | k + 1, P => add (mulNat k P) P

def ops : CurveOps where
  p := 43
  n := 31
  gx := 2
  gy := 12
  sqrtExp := fun c => c ^ 11 % 43
  add := add
  mul := mulNat
  invN := fun s => s ^ 29 % 31

/-- `k·G` -/
def tbl (k : Nat) : Pt := mulNat k (2, 12)

theorem fieldHyp : FieldHyp ops where
  p_gt := by decide
  p_odd := by decide
  p_lt := by decide
  sqrtExp_lt := fun c => Nat.mod_lt _ (by decide)
  sqrt_complete := by
    intro c y hy hc
    subst hc
    revert y
    show ∀ y, y < 43 → (y * y % 43) ^ 11 % 43 * ((y * y % 43) ^ 11 % 43) % 43 = y * y % 43
    decide
  sqrt_unique := by
    have : ∀ y, y < 43 → ∀ z, z < 43 → y * y % 43 = z * z % 43 → z = y ∨ z + y = 43 := by decide
    exact fun y z hy hz => this y hy z hz
  no_x_zero := by
    show ∀ y, y < 43 → y * y % 43 ≠ 7
    decide
  no_y_zero := by
    show ∀ x, x < 43 → (x * x * x + 7) % 43 ≠ 0
    decide

theorem tbl_add : ∀ a, a < 31 → ∀ b, b < 31 → add (tbl a) (tbl b) = tbl ((a + b) % 31) := by decide

theorem tbl_inj : ∀ a, a < 31 → ∀ b, b < 31 → tbl a = tbl b → a = b := by decide

theorem tbl_valid : ∀ a, a < 31 → a ≠ 0 → Spec.ECC.validPoint ops (tbl a) = true := by decide

/-- index of a point in the table (0 when absent) -/
def idx (Q : Pt) : Nat := ((List.range 31).find? (fun a => tbl a == Q)).getD 0

/-- the finite check behind `surj`, as one closed Boolean -/
def surjCheck : Bool :=
  (List.range 43).all fun x => (List.range 43).all fun y =>
    !Spec.ECC.validPoint ops (x, y) ||
      (decide (idx (x, y) < 31) && decide (idx (x, y) ≠ 0) && tbl (idx (x, y)) == (x, y))

theorem surjCheck_true : surjCheck = true := by decide +kernel

theorem tbl_surj (x : Nat) (hx : x < 43) (y : Nat) (hy : y < 43)
    (hv : Spec.ECC.validPoint ops (x, y) = true) :
    (idx (x, y) < 31 ∧ idx (x, y) ≠ 0 ∧ tbl (idx (x, y)) = (x, y)) := by
  have h := surjCheck_true
  unfold surjCheck at h
  rw [List.all_eq_true] at h
  have h := h x (List.mem_range.mpr hx)
  rw [List.all_eq_true] at h
  have h := h y (List.mem_range.mpr hy)
  simpa [hv, and_assoc] using h

theorem tbl_neg : ∀ a, a < 31 → a ≠ 0 → tbl (31 - a) = ((tbl a).1, 43 - (tbl a).2) := by decide +kernel

theorem inv_ok : ∀ s, s < 31 → 0 < s → s ^ 29 % 31 * s % 31 = 1 := by decide

def xy (a : ZMod 31) : Pt := tbl a.val

theorem val_lt (a : ZMod 31) : a.val < 31 := ZMod.val_lt a

theorem xy_add (P Q : ZMod 31) : add (xy P) (xy Q) = xy (P + Q) := by
  unfold xy
  rw [tbl_add _ (val_lt P) _ (val_lt Q), ZMod.val_add]

theorem xy_mul (k : ℕ) (P : ZMod 31) : mulNat k (xy P) = xy (k • P) := by
  induction k with
  | zero => simp [mulNat, xy, tbl]
  | succ k ih => rw [mulNat, ih, xy_add, succ_nsmul]

/-- the toy instance: all hypotheses hold for `y² = x³ + 7` over F₄₃ -/
def curveAbs : CurveAbs ops where
  field := fieldHyp
  Pt := ZMod 31
  G := 1
  xy := xy
  xy_zero := by simp [xy, tbl, mulNat]
  xy_inj := by
    intro P Q h
    exact ZMod.val_injective 31 (tbl_inj _ (val_lt P) _ (val_lt Q) h)
  xy_G := by
    show tbl (1 : ZMod 31).val = (2, 12)
    have : Fact (1 < 31) := ⟨by decide⟩
    rw [ZMod.val_one]; decide
  on_curve := by
    intro P hP
    exact tbl_valid _ (val_lt P) (fun h => hP ((ZMod.val_eq_zero P).mp h))
  surj := by
    intro Q hQ
    have hx : Q.1 < 43 ∧ Q.2 < 43 := by
      have := hQ
      simp only [Spec.ECC.validPoint, Bool.and_eq_true, decide_eq_true_eq] at this
      exact ⟨this.1.1, this.1.2⟩
    obtain ⟨ha, h0, ht⟩ := tbl_surj Q.1 hx.1 Q.2 hx.2 hQ
    generalize idx (Q.1, Q.2) = a at ha h0 ht
    refine ⟨(a : ZMod 31), ?_, ?_⟩
    · intro h
      rw [ZMod.natCast_eq_zero_iff] at h
      exact h0 (Nat.eq_zero_of_dvd_of_lt h ha)
    · show tbl ((a : ZMod 31)).val = Q
      rw [ZMod.val_natCast, Nat.mod_eq_of_lt ha, ht]
  neg_xy := by
    intro P hP
    have h0 : P.val ≠ 0 := fun h => hP ((ZMod.val_eq_zero P).mp h)
    show tbl (-P).val = _
    rw [ZMod.neg_val, if_neg hP]
    exact tbl_neg _ (val_lt P) h0
  n_gt := by decide
  n_lt := by decide
  order := by
    intro P
    show (31 : ℕ) • P = 0
    rw [nsmul_eq_mul, ZMod.natCast_self, zero_mul]
  G_order := by
    intro k h
    rw [nsmul_eq_mul, mul_one] at h
    exact (ZMod.natCast_eq_zero_iff k 31).mp h
  add_spec := xy_add
  mul_spec := xy_mul
  invN_spec := by
    intro s h0 hn
    exact inv_ok s hn h0

end BtcVerif.Proofs.Toy
