/-
  Lemmas for C12, script numbers: `PushNumber` against `CScriptNum::serialize` / `push_int64`,
  `ReadNumber` against `CScriptNum::set_vch`, and the round trip, for every int64.
-/
import BtcVerif.Proofs.Script
namespace BtcVerif.Proofs.Script
open BtcVerif BtcVerif.Model BtcVerif.Parser
open BtcVerif.Gen BtcVerif.Gen.Guards
open BtcVerif.Spec.Script (magnitudeBytes scriptNumBytes scriptNum scriptNumValue)

/-- the model's bounded loop is the reference's unbounded one as long as the fuel suffices -/
theorem magBytesFuel_eq (fuel m : Nat) (h : m < 256 ^ fuel) : magBytesFuel fuel m = magnitudeBytes m := by
  induction fuel generalizing m with
  | zero =>
    have : m = 0 := by simp at h; omega
    subst this
    rw [magnitudeBytes]; rfl
  | succ fuel ih =>
    rw [magnitudeBytes]
    simp only [magBytesFuel, script_PushNumber_4]
    by_cases h0 : m = 0
    · simp [h0]
    · have : m > 0 := by omega
      simp only [this, decide_true, if_true, h0, if_false]
      rw [ih (m / 256) (by rw [Nat.div_lt_iff_lt_mul (by decide)]; rw [Nat.pow_succ] at h; exact h)]

theorem magBytes_eq (m : Nat) (h : m < 2 ^ 64) : magBytes m = magnitudeBytes m :=
  magBytesFuel_eq 8 m (by simpa using h)

/-- `uint64(n)`, negated when `n < 0`, is `|n|` for every int64 -/
theorem magnitude_eq (n : Int) (hlo : -(2 ^ 63 : Int) ≤ n) (hhi : n < 2 ^ 63) :
    (if n < 0 then wrapU 18446744073709551616 (-((wrapU 18446744073709551616 n : Nat) : Int))
      else wrapU 18446744073709551616 n) = n.natAbs := by
  unfold wrapU
  split <;> omega


theorem magBytesFuel_length (fuel m : Nat) : (magBytesFuel fuel m).length ≤ fuel := by
  induction fuel generalizing m with
  | zero => simp [magBytesFuel]
  | succ fuel ih =>
    simp only [magBytesFuel]
    split
    · simp only [List.length_cons]; have := ih (m / 256); omega
    · simp

theorem magnitudeBytes_ne_nil (m : Nat) (h : m ≠ 0) : magnitudeBytes m ≠ [] := by
  rw [magnitudeBytes]; simp [h]

theorem and128 : ∀ x, x < 256 → ((x &&& 128 ≠ 0) ↔ x ≥ 128) := by decide +kernel
theorem or128 : ∀ x, x < 128 → x ||| 128 = x + 128 := by decide +kernel

theorem highbit_guard (b : UInt8) :
    script_PushNumber_5 (result_at_len_result____1 := b.toNat) = decide (b.toNat ≥ 0x80) := by
  simp only [script_PushNumber_5]
  have := and128 b.toNat b.toNat_lt
  by_cases h : b.toNat ≥ 128 <;> simp_all

theorem or_0x80 (b : UInt8) (h : b.toNat < 128) : b ||| 0x80 = UInt8.ofNat (b.toNat + 0x80) := by
  apply UInt8.toNat_inj.mp
  rw [UInt8.toNat_or]
  have : (0x80 : UInt8).toNat = 128 := by decide
  rw [this, or128 _ h]
  simp [UInt8.toNat_ofNat']; omega

/-- `pushNumber_eq_spec`: for every int64 (INT64_MIN included) -/
theorem pushNumber_eq_spec (n : Int) (hlo : -(2 ^ 63 : Int) ≤ n) (hhi : n < 2 ^ 63) :
    pushNumber n = .ok (scriptNum n) := by
  unfold pushNumber scriptNum
  simp only [script_PushNumber_0, script_PushNumber_1, script_PushNumber_2, script_PushNumber_3,
    script_PushNumber_6, script_PushNumber_7, opByte, constants_OP_1NEGATE, constants_OP_1]
  by_cases c0 : n = -1
  · simp [c0]
  · by_cases c1 : n = 0
    · simp [c1]
    · by_cases c2 : 1 ≤ n ∧ n ≤ 16
      · have e : wrapU 256 (n + ((81 : Nat) : Int) - 1) = 0x50 + n.toNat := by unfold wrapU; omega
        simp only [c0, c1, c2, decide_false, decide_true, Bool.and_self, if_false, if_true,
          Bool.false_eq_true, and_self]
        rw [e]
      · have c2' : ¬ (n ≥ 1 ∧ n ≤ 16) := c2
        simp only [c0, c1, c2, c2', decide_false, decide_true, Bool.and_self, Bool.false_and, Bool.and_false, if_false,
          decide_eq_true_eq]
        have hg : ¬ ((decide (n ≥ 1) && decide (n ≤ 16)) = true) := by simp; omega
        rw [if_neg (by decide), if_neg (by decide), if_neg hg, magnitude_eq n hlo hhi,
          magBytes_eq _ (by omega)]
        have hne := magnitudeBytes_ne_nil n.natAbs (by omega)
        have hlen : (magnitudeBytes n.natAbs).length ≤ 8 := by
          rw [← magBytes_eq _ (by omega)]; exact magBytesFuel_length 8 _
        unfold scriptNumBytes
        rw [if_neg c1]
        simp only
        cases hgl : (magnitudeBytes n.natAbs).getLast? with
        | none => simp [List.getLast?_eq_none_iff] at hgl; exact absurd hgl hne
        | some last =>
          simp only [highbit_guard, decide_eq_true_eq]
          by_cases hb : last.toNat ≥ 0x80
          · rw [if_pos hb, if_pos hb]
            exact pushData_eq_spec _ (by simp; omega)
          · rw [if_neg hb, if_neg hb]
            by_cases hn : n < 0
            · rw [if_pos hn, if_pos hn, or_0x80 last (by omega)]
              exact pushData_eq_spec _ (by simp; omega)
            · rw [if_neg hn, if_neg hn]
              exact pushData_eq_spec _ (by omega)

theorem or_shift (mag b i : Nat) (hm : mag < 2 ^ (8 * i)) (hb : b < 256) (hi : i ≤ 7) :
    mag ||| ((b <<< (8 * i)) % 18446744073709551616) = mag + b * 2 ^ (8 * i) := by
  have h1 : b <<< (8 * i) = b * 2 ^ (8 * i) := Nat.shiftLeft_eq _ _
  have h2 : b * 2 ^ (8 * i) < 18446744073709551616 := by
    have : 2 ^ (8 * i) ≤ 2 ^ 56 := Nat.pow_le_pow_right (by decide) (by omega)
    calc b * 2 ^ (8 * i) ≤ 255 * 2 ^ 56 := Nat.mul_le_mul (by omega) this
      _ < 18446744073709551616 := by decide
  rw [Nat.mod_eq_of_lt (by rw [h1]; exact h2)]
  rw [Nat.or_comm, ← Nat.shiftLeft_add_eq_or_of_lt hm, h1, Nat.add_comm]

/-- the spec's little-endian value -/
abbrev le := scriptNumValue.le

theorem le_nil : le [] = 0 := rfl
theorem le_cons (b : UInt8) (r : Bytes) : le (b :: r) = b.toNat + 256 * le r := rfl

theorem le_append_single (xs : Bytes) (b : UInt8) : le (xs ++ [b]) = le xs + b.toNat * 256 ^ xs.length := by
  induction xs with
  | nil => simp [le_cons, le_nil]
  | cons x xs ih =>
    simp only [List.cons_append, le_cons, ih, List.length_cons, Nat.pow_succ]
    rw [Nat.mul_add, Nat.add_assoc]
    congr 2
    rw [Nat.mul_comm (256 ^ xs.length) 256, ← Nat.mul_assoc, ← Nat.mul_assoc, Nat.mul_comm 256]

theorem le_lt (xs : Bytes) : le xs < 256 ^ xs.length := by
  induction xs with
  | nil => simp [le_nil]
  | cons x xs ih =>
    simp only [le_cons, List.length_cons, Nat.pow_succ]
    have := x.toNat_lt
    omega

theorem le_magnitudeBytes (m : Nat) : le (magnitudeBytes m) = m := by
  induction m using Nat.strongRecOn with
  | _ m ih =>
    rw [magnitudeBytes]
    by_cases h : m = 0
    · simp [h, le_nil]
    · simp only [h, if_false, le_cons]
      rw [ih (m / 256) (by omega)]
      have : (UInt8.ofNat (m % 256)).toNat = m % 256 := by simp [UInt8.toNat_ofNat']
      rw [this]; omega

theorem getLast?_eq_some_iff_dropLast {xs : Bytes} {b : UInt8} (h : xs.getLast? = some b) :
    xs = xs.dropLast ++ [b] := by
  have hne : xs ≠ [] := by intro e; subst e; simp at h
  have := List.dropLast_concat_getLast hne
  rw [List.getLast?_eq_some_getLast hne] at h
  injection h with h
  rw [h] at this
  exact this.symm

/-- `set_vch ∘ serialize = id` on every integer (spec level) -/
theorem scriptNumValue_bytes (n : Int) : scriptNumValue (scriptNumBytes n) = n := by
  unfold scriptNumBytes
  by_cases h0 : n = 0
  · simp [h0, scriptNumValue]
  · rw [if_neg h0]
    simp only
    have hne := magnitudeBytes_ne_nil n.natAbs (by omega)
    have hle := le_magnitudeBytes n.natAbs
    cases hgl : (magnitudeBytes n.natAbs).getLast? with
    | none => simp [List.getLast?_eq_none_iff] at hgl; exact absurd hgl hne
    | some last =>
      simp only
      have hsplit := getLast?_eq_some_iff_dropLast hgl
      generalize magnitudeBytes n.natAbs = bs at *
      by_cases hb : last.toNat ≥ 0x80
      · rw [if_pos hb]
        unfold scriptNumValue
        simp only [List.getLast?_append, List.getLast?_singleton, Option.some_or, List.length_append,
          List.length_singleton, Nat.add_sub_cancel]
        by_cases hn : n < 0
        · simp only [hn, if_true]
          have : (0x80 : UInt8).toNat ≥ 0x80 := by decide
          rw [if_pos this]
          show -((le (bs ++ [0x80]) : Int) - _) = n
          rw [le_append_single, hle]
          have : (0x80 : UInt8).toNat = 128 := by decide
          rw [this]
          push_cast
          omega
        · simp only [hn, if_false]
          have : ¬ (0x00 : UInt8).toNat ≥ 0x80 := by decide
          rw [if_neg this]
          show (le (bs ++ [0x00]) : Int) = n
          rw [le_append_single, hle]
          have : (0x00 : UInt8).toNat = 0 := by decide
          rw [this]
          omega
      · rw [if_neg hb]
        by_cases hn : n < 0
        · rw [if_pos hn]
          have hlast : (UInt8.ofNat (last.toNat + 0x80)).toNat = last.toNat + 128 := by
            rw [UInt8.toNat_ofNat']; omega
          unfold scriptNumValue
          simp only [List.getLast?_append, List.getLast?_singleton, Option.some_or, List.length_append,
            List.length_singleton, Nat.add_sub_cancel]
          rw [if_pos (by rw [hlast]; omega)]
          show -((le (bs.dropLast ++ [UInt8.ofNat (last.toNat + 0x80)]) : Int) - _) = n
          rw [le_append_single, hlast]
          have h2 : le bs = le bs.dropLast + last.toNat * 256 ^ bs.dropLast.length := by
            conv => lhs; rw [hsplit]
            exact le_append_single _ _
          have hpow : ((0x80 : Int) * (256 : Int) ^ bs.dropLast.length) = ((128 * 256 ^ bs.dropLast.length : Nat) : Int) := by
            simp [Int.natCast_mul, Int.natCast_pow]
          rw [hpow, Nat.add_mul]
          have h3 : le bs = n.natAbs := hle
          rw [h2] at h3
          generalize 256 ^ bs.dropLast.length = P at *
          generalize last.toNat * P = Q at *
          omega
        · rw [if_neg hn]
          unfold scriptNumValue
          rw [hgl]
          simp only
          rw [if_neg hb]
          show (le bs : Int) = n
          rw [hle]; omega

/-- value of a byte with its sign bit cleared -/
def stripB (b : UInt8) : Nat := if b.toNat ≥ 128 then b.toNat - 128 else b.toNat

/-- sign bit of a number string: top bit of the last byte -/
def signOf : Bytes → Bool
  | [] => false
  | [b] => decide (b.toNat ≥ 128)
  | _ :: b :: bs => signOf (b :: bs)

/-- little-endian value with the sign bit of the last byte cleared -/
def leStripped : Bytes → Nat
  | [] => 0
  | [b] => stripB b
  | a :: b :: bs => a.toNat + 256 * leStripped (b :: bs)

theorem guard5 (i len : Nat) (b : UInt8) :
    script_ReadNumber_5 (i := (i : Int)) (len_numBytes := len) (byteValue := b.toNat)
      = (decide (i + 1 = len) && decide (b.toNat ≥ 128)) := by
  simp only [script_ReadNumber_5]
  have := and128 b.toNat b.toNat_lt
  by_cases h1 : i + 1 = len <;> by_cases h2 : b.toNat ≥ 128
  all_goals simp_all
  all_goals omega

theorem guard6 (i : Nat) : script_ReadNumber_6 (i := (i : Int)) = decide (i = 8) := by
  simp only [script_ReadNumber_6]
  by_cases h : i = 8 <;> simp [h]
  omega

theorem sub128 (b : UInt8) (h : b.toNat ≥ 128) : (b - 0x80).toNat = b.toNat - 128 := by
  have : (0x80 : UInt8) ≤ b := by
    rw [UInt8.le_iff_toNat_le]; exact h
  rw [UInt8.toNat_sub_of_le _ _ this]; rfl

theorem byteValue_toNat (sign : Bool) (b : UInt8) (h : sign = true → b.toNat ≥ 128) :
    (if sign = true then b - 0x80 else b).toNat = if sign then b.toNat - 128 else b.toNat := by
  cases sign with
  | true => simp [sub128 b (h rfl)]
  | false => simp

theorem pow_step (i : Nat) : 2 ^ (8 * (i + 1)) = 256 * 2 ^ (8 * i) := by
  rw [Nat.mul_add, Nat.pow_add]; simp [Nat.mul_comm]

theorem numLoop_short (len : Nat) (hlen : len ≤ 8) : ∀ (bs : Bytes) (i : Nat) (neg : Bool) (mag : Nat),
    i + bs.length = len → mag < 2 ^ (8 * i) →
    numLoop len i bs neg mag = .ok (neg || signOf bs, mag + 2 ^ (8 * i) * leStripped bs) := by
  intro bs
  induction bs with
  | nil => intro i neg mag _ _; simp [numLoop, signOf, leStripped]
  | cons a bs ih =>
    intro i neg mag hi hm
    simp only [List.length_cons] at hi
    rw [numLoop]
    simp only [guard5, guard6]
    have hi8 : ¬ i = 8 := by omega
    simp only [hi8, decide_false, Bool.false_eq_true, if_false]
    cases bs with
    | nil =>
      simp only [List.length_nil] at hi
      have h1 : i + 1 = len := by omega
      simp only [h1, decide_true, Bool.true_and]
      rw [byteValue_toNat _ _ (by simp)]
      rw [or_shift mag _ i hm (by split <;> (have := a.toNat_lt; omega)) (by omega)]
      simp only [numLoop, signOf, leStripped, stripB]
      by_cases hb : a.toNat ≥ 128
      · simp [hb, Nat.mul_comm]
      · simp [hb, Nat.mul_comm]
    | cons b bs =>
      simp only [List.length_cons] at hi
      have h1 : ¬ i + 1 = len := by omega
      simp only [h1, decide_false, Bool.false_and, Bool.or_false, Bool.false_eq_true, if_false]
      rw [or_shift mag _ i hm a.toNat_lt (by omega)]
      rw [ih (i + 1) neg _ (by simp only [List.length_cons]; omega)
        (by rw [pow_step]; have := a.toNat_lt; 
            have : a.toNat * 2 ^ (8 * i) ≤ 255 * 2 ^ (8 * i) := Nat.mul_le_mul_right _ (by omega)
            omega)]
      simp only [signOf, leStripped, pow_step]
      congr 2
      rw [Nat.mul_add, Nat.add_assoc]
      rw [Nat.mul_comm a.toNat, Nat.mul_assoc, Nat.mul_left_comm 256]


theorem numLoop_nine (b8 : UInt8) : ∀ (pre : Bytes) (i : Nat) (neg : Bool) (mag : Nat),
    i + pre.length = 8 → mag < 2 ^ (8 * i) →
    numLoop 9 i (pre ++ [b8]) neg mag =
      if stripB b8 ≠ 0 then .err else .ok (neg || decide (b8.toNat ≥ 128), mag + 2 ^ (8 * i) * le pre) := by
  intro pre
  induction pre with
  | nil =>
    intro i neg mag hi hm
    simp only [List.length_nil] at hi
    have : i = 8 := by omega
    subst this
    simp only [List.nil_append]
    rw [numLoop]
    simp only [guard5, guard6, decide_true, Bool.true_and, if_true, script_ReadNumber_7]
    rw [byteValue_toNat _ _ (by simp)]
    simp only [stripB, le_nil, Nat.mul_zero, Nat.add_zero]
    by_cases hb : b8.toNat ≥ 128 <;> simp [hb]
  | cons a pre ih =>
    intro i neg mag hi hm
    simp only [List.length_cons] at hi
    simp only [List.cons_append]
    rw [numLoop]
    simp only [guard5, guard6]
    have hi8 : ¬ i = 8 := by omega
    have h1 : ¬ i + 1 = 9 := by omega
    simp only [hi8, h1, decide_false, Bool.false_and, Bool.or_false, Bool.false_eq_true, if_false]
    rw [or_shift mag _ i hm a.toNat_lt (by omega)]
    rw [ih (i + 1) neg _ (by omega)
      (by rw [pow_step]; have := a.toNat_lt
          have : a.toNat * 2 ^ (8 * i) ≤ 255 * 2 ^ (8 * i) := Nat.mul_le_mul_right _ (by omega)
          omega)]
    split
    · rfl
    · simp only [le_cons, pow_step]
      congr 2
      rw [Nat.mul_add, Nat.add_assoc]
      rw [Nat.mul_comm a.toNat, Nat.mul_assoc, Nat.mul_left_comm 256]


theorem signOf_append_single (pre : Bytes) (b : UInt8) : signOf (pre ++ [b]) = decide (b.toNat ≥ 128) := by
  induction pre with
  | nil => rfl
  | cons a pre ih =>
    cases pre with
    | nil => exact ih
    | cons c pre => exact ih

theorem leStripped_append_single (pre : Bytes) (b : UInt8) :
    leStripped (pre ++ [b]) = le pre + 256 ^ pre.length * stripB b := by
  induction pre with
  | nil => simp [leStripped, le_nil]
  | cons a pre ih =>
    have : leStripped (a :: (pre ++ [b])) = a.toNat + 256 * leStripped (pre ++ [b]) := by
      cases pre <;> rfl
    simp only [List.cons_append, this, ih, le_cons, List.length_cons, Nat.pow_succ]
    rw [Nat.mul_add, Nat.add_assoc]
    congr 2
    rw [Nat.mul_comm (256 ^ pre.length) 256, Nat.mul_assoc]

theorem stripB_le (b : UInt8) : stripB b ≤ 127 := by
  unfold stripB; have := b.toNat_lt; split <;> omega

theorem stripB_add (b : UInt8) : b.toNat = stripB b + (if b.toNat ≥ 128 then 128 else 0) := by
  unfold stripB; split <;> omega

/-- the spec value of a non-empty string in terms of its last byte -/
theorem scriptNumValue_append_single (pre : Bytes) (b : UInt8) :
    scriptNumValue (pre ++ [b]) =
      if b.toNat ≥ 128 then -((le pre + 256 ^ pre.length * stripB b : Nat) : Int)
      else ((le pre + 256 ^ pre.length * stripB b : Nat) : Int) := by
  unfold scriptNumValue
  simp only [List.getLast?_append, List.getLast?_singleton, Option.some_or, List.length_append,
    List.length_singleton, Nat.add_sub_cancel]
  show (if b.toNat ≥ 128 then -((le (pre ++ [b]) : Int) - 0x80 * 256 ^ pre.length) else (le (pre ++ [b]) : Int)) = _
  rw [le_append_single]
  have hb := stripB_add b
  have hpow : ((0x80 : Int) * (256 : Int) ^ pre.length) = ((128 * 256 ^ pre.length : Nat) : Int) := by
    simp [Int.natCast_mul, Int.natCast_pow]
  rw [hpow]
  by_cases h : b.toNat ≥ 128
  · simp only [h, if_true] at hb ⊢
    rw [hb, Nat.add_mul, Nat.mul_comm (256 ^ pre.length)]
    generalize 256 ^ pre.length = P
    generalize stripB b * P = Q
    omega
  · simp only [h, if_false] at hb ⊢
    rw [hb, Nat.add_zero, Nat.mul_comm (256 ^ pre.length)]

theorem wrapS_nat (m : Nat) (h : m ≤ 9223372036854775807) : wrapS 18446744073709551616 (m : Int) = m :=
  wrapS_of_small _ _ (by omega) (by omega)

theorem wrapS_neg_nat (m : Nat) (h : m ≤ 9223372036854775808) :
    wrapS 18446744073709551616 (wrapU 18446744073709551616 (-(m : Int)) : Nat) = -(m : Int) := by
  unfold wrapS wrapU
  simp only []
  split <;> omega

/-- `ReadNumber`'s decoding in closed form: the `CScriptNum::set_vch` value of a string of at most
    nine bytes, accepted exactly when it fits an int64 -/
theorem decodeNum_spec (d : Bytes) :
    decodeNum d =
      if d.length ≤ 9 ∧ -(2 ^ 63 : Int) ≤ scriptNumValue d ∧ scriptNumValue d < 2 ^ 63
      then .ok (scriptNumValue d) else .err := by
  rcases List.eq_nil_or_concat d with rfl | ⟨pre, b, rfl⟩
  · simp [decodeNum, numLoop, script_ReadNumber_3, script_ReadNumber_8, script_ReadNumber_10,
      scriptNumValue, wrapS]
  · rw [List.concat_eq_append]
    unfold decodeNum
    simp only [script_ReadNumber_3, script_ReadNumber_8, script_ReadNumber_9, script_ReadNumber_10,
      List.length_append, List.length_singleton]
    rw [scriptNumValue_append_single]
    have hs := stripB_le b
    have hle := le_lt pre
    by_cases h9 : pre.length + 1 ≤ 9
    · have hg : ¬ (((pre.length + 1 : Nat) : Int) > 9) := by omega
      simp only [hg, decide_false, Bool.false_eq_true, if_false, h9, true_and]
      by_cases h8 : pre.length + 1 ≤ 8
      · rw [numLoop_short (pre.length + 1) h8 (pre ++ [b]) 0 false 0 (by simp) (by simp)]
        simp only [Bool.false_or, signOf_append_single, leStripped_append_single, Nat.mul_zero,
          Nat.pow_zero, Nat.one_mul, Nat.zero_add, decide_eq_true_eq]
        have hP : 256 ^ pre.length ≤ 256 ^ 7 := Nat.pow_le_pow_right (by decide) (by omega)
        have hQ : 256 ^ pre.length * stripB b ≤ 256 ^ pre.length * 127 := Nat.mul_le_mul_left _ hs
        generalize 256 ^ pre.length = P at *
        generalize P * stripB b = Q at *
        have hPv : (256 : Nat) ^ 7 = 72057594037927936 := by decide
        rw [hPv] at hP
        by_cases hb : b.toNat ≥ 128
        · simp only [hb, if_true]
          have g9 : ¬ (le pre + Q > 9223372036854775808) := by omega
          simp only [g9, decide_false, Bool.false_eq_true, if_false]
          rw [if_pos (by omega)]
          refine congrArg Outcome.ok ?_
          exact wrapS_neg_nat _ (by omega)
        · simp only [hb, if_false]
          have g10 : ¬ (le pre + Q > 9223372036854775807) := by omega
          simp only [g10, decide_false, Bool.false_eq_true, if_false]
          rw [if_pos (by omega)]
          refine congrArg Outcome.ok ?_
          exact wrapS_nat _ (by omega)
      · have hl : pre.length = 8 := by omega
        rw [hl]
        rw [numLoop_nine b pre 0 false 0 (by omega) (by simp)]
        simp only [Nat.mul_zero, Nat.pow_zero, Nat.one_mul, Nat.zero_add, Bool.false_or]
        have hP : (256 : Nat) ^ 8 = 18446744073709551616 := by decide
        rw [hl, hP] at hle
        rw [hP]
        by_cases hz : stripB b = 0
        · simp only [hz, Nat.mul_zero, Nat.add_zero, ne_eq, not_true_eq_false, if_false,
            decide_eq_true_eq]
          by_cases hb : b.toNat ≥ 128
          · simp only [hb, if_true]
            by_cases g9 : le pre > 9223372036854775808
            · simp only [g9, decide_true, if_true]
              rw [if_neg (by omega)]
            · simp only [g9, decide_false, Bool.false_eq_true, if_false]
              rw [if_pos (by omega)]
              refine congrArg Outcome.ok ?_
              exact wrapS_neg_nat _ (by omega)
          · simp only [hb, if_false]
            by_cases g10 : le pre > 9223372036854775807
            · simp only [g10, decide_true, if_true]
              rw [if_neg (by omega)]
            · simp only [g10, decide_false, Bool.false_eq_true, if_false]
              rw [if_pos (by omega)]
              refine congrArg Outcome.ok ?_
              exact wrapS_nat _ (by omega)
        · simp only [ne_eq, hz, not_false_eq_true, if_true]
          have : 18446744073709551616 * stripB b ≥ 18446744073709551616 := by
            have : stripB b ≥ 1 := by omega
            calc 18446744073709551616 * stripB b ≥ 18446744073709551616 * 1 := Nat.mul_le_mul_left _ this
              _ = 18446744073709551616 := by simp
          generalize 18446744073709551616 * stripB b = Q at *
          by_cases hb : b.toNat ≥ 128
          · simp only [hb, if_true]; rw [if_neg (by omega)]
          · simp only [hb, if_false]; rw [if_neg (by omega)]
    · have hg : (((pre.length + 1 : Nat) : Int) > 9) := by omega
      simp only [hg, decide_true, if_true]
      rw [if_neg (by intro hh; exact h9 hh.1)]

theorem scriptNumBytes_length (n : Int) (hlo : -(2 ^ 63 : Int) ≤ n) (hhi : n < 2 ^ 63) (h0 : n ≠ 0) :
    1 ≤ (scriptNumBytes n).length ∧ (scriptNumBytes n).length ≤ 9 := by
  unfold scriptNumBytes
  rw [if_neg h0]
  simp only
  have hne := magnitudeBytes_ne_nil n.natAbs (by omega)
  have hlen : (magnitudeBytes n.natAbs).length ≤ 8 := by
    rw [← magBytes_eq _ (by omega)]; exact magBytesFuel_length 8 _
  have hpos : 1 ≤ (magnitudeBytes n.natAbs).length := by
    cases h : magnitudeBytes n.natAbs with
    | nil => exact absurd h hne
    | cons _ _ => simp
  cases hgl : (magnitudeBytes n.natAbs).getLast? with
  | none => simp [List.getLast?_eq_none_iff] at hgl; exact absurd hgl hne
  | some last =>
    simp only
    split
    · simp; omega
    · split
      · simp; omega
      · omega

theorem rn_guard0 (x : Nat) : script_ReadNumber_0 (firstBytes_0 := x) = true ↔ x = 79 := by
  simp [script_ReadNumber_0]
theorem rn_guard1 (x : Nat) : script_ReadNumber_1 (firstBytes_0 := x) = true ↔ x = 0 := by
  simp [script_ReadNumber_1]
theorem rn_guard2 (x : Nat) (hx : x < 256) :
    script_ReadNumber_2 (firstBytes_0 := x) = true ↔ (81 ≤ x ∧ x ≤ 96) := by
  simp only [script_ReadNumber_2]
  rw [wrapS_of_small _ _ (by omega) (by omega)]
  simp; omega

/-- `ReadNumber` reads a direct push of 1..9 bytes by decoding the pushed string -/
theorem readNumber_direct (d rest : Bytes) (h1 : 1 ≤ d.length) (h9 : d.length ≤ 9) :
    readNumber (Spec.Script.push d ++ rest) = (decodeNum d).bind fun v => .ok (v, rest) := by
  obtain ⟨e, hb, h0, hw⟩ := spec_push_eq d (by omega)
  have hmin : minOp d.length = UInt8.ofNat d.length := by unfold minOp; rw [if_pos (by omega)]
  have ht : (UInt8.ofNat d.length).toNat = d.length := by rw [UInt8.toNat_ofNat']; omega
  have hrd := readData_encoding (minOp d.length) d rest hb h0 hw
  rw [e]
  simp only [List.cons_append]
  rw [hmin] at hrd ⊢
  simp only [List.append_assoc] at hrd
  simp only [readNumber]
  rw [if_neg (fun h => by have := (rn_guard0 _).mp h; omega),
    if_neg (fun h => by have := (rn_guard1 _).mp h; omega),
    if_neg (fun h => by have := (rn_guard2 _ (UInt8.toNat_lt _)).mp h; omega)]
  simp only [List.append_assoc]
  rw [hrd]

/-- `read_pushNumber`: for every int64 -/
theorem readNumber_pushNumber (n : Int) (rest : Bytes) (hlo : -(2 ^ 63 : Int) ≤ n) (hhi : n < 2 ^ 63) :
    ∃ p, pushNumber n = .ok p ∧ readNumber (p ++ rest) = .ok (n, rest) := by
  refine ⟨scriptNum n, pushNumber_eq_spec n hlo hhi, ?_⟩
  unfold scriptNum
  by_cases c0 : n = -1
  · subst c0
    simp [readNumber, script_ReadNumber_0]
  · by_cases c1 : n = 0
    · subst c1
      simp [readNumber, script_ReadNumber_0, script_ReadNumber_1]
    · by_cases c2 : 1 ≤ n ∧ n ≤ 16
      · rw [if_neg c0, if_neg c1, if_pos c2]
        have ht : (UInt8.ofNat (0x50 + n.toNat)).toNat = 80 + n.toNat := by
          rw [UInt8.toNat_ofNat']; omega
        simp only [List.cons_append, List.nil_append, readNumber]
        rw [if_neg (fun h => by have := (rn_guard0 _).mp h; omega),
          if_neg (fun h => by have := (rn_guard1 _).mp h; omega),
          if_pos ((rn_guard2 _ (UInt8.toNat_lt _)).mpr (by omega))]
        have hle : (0x50 : UInt8) ≤ UInt8.ofNat (0x50 + n.toNat) := by
          rw [UInt8.le_iff_toNat_le, ht]
          have : (0x50 : UInt8).toNat = 80 := by decide
          omega
        rw [UInt8.toNat_sub_of_le _ _ hle, ht]
        have : (0x50 : UInt8).toNat = 80 := by decide
        rw [this]
        refine congrArg Outcome.ok (Prod.ext ?_ rfl)
        show ((80 + n.toNat - 80 : Nat) : Int) = n
        omega
      · rw [if_neg c0, if_neg c1, if_neg c2]
        obtain ⟨l1, l9⟩ := scriptNumBytes_length n hlo hhi c1
        rw [readNumber_direct _ rest l1 l9, decodeNum_spec, scriptNumValue_bytes]
        rw [if_pos ⟨l9, hlo, hhi⟩]
        rfl


/-! ### builders made of pushes -/

theorem pushAll_eq_spec (ds : List Bytes) (h : ∀ d ∈ ds, d.length < 2 ^ 32) :
    pushAll ds = .ok (ds.map Spec.Script.push).flatten := by
  induction ds with
  | nil => rfl
  | cons d ds ih =>
    simp only [pushAll, pushData_eq_spec d (h d (by simp)), ih (fun x hx => h x (by simp [hx])),
      Outcome.bind, List.map_cons, List.flatten_cons]

theorem makeOpReturn_spec (payload : Bytes) :
    makeOpReturn payload = if payload.length ≤ 80 then .ok (Spec.Script.opReturn payload) else .err := by
  unfold makeOpReturn
  simp only [script_MakeOpReturn_0]
  by_cases h : payload.length ≤ 80
  · have g : ¬ ((payload.length : Int) > 80) := by omega
    simp only [g, decide_false, Bool.false_eq_true, if_false, h, if_true]
    rw [pushData_eq_spec payload (by omega)]
    simp [Outcome.bind, Spec.Script.opReturn, opByte, constants_OP_RETURN]
  · have g : ((payload.length : Int) > 80) := by omega
    simp [g, h]

/-- `MakeP2MS`: `m <key>… n OP_CHECKMULTISIG` whenever `1 ≤ m ≤ n` -/
theorem makeP2MS_spec (m : Nat) (keys : List Bytes) (hm : 1 ≤ m) (hmn : m ≤ keys.length)
    (hn : keys.length < 2 ^ 31) (hk : ∀ k ∈ keys, k.length < 2 ^ 32) :
    makeP2MS m keys = .ok (Spec.Script.multisig m keys) := by
  unfold makeP2MS
  have g0 : script_MakeP2MS_0 (sigsRequired := m) (len_publicKeys := keys.length) = false := by
    simp only [script_MakeP2MS_0]
    rw [wrapS_of_small _ _ (by omega) (by omega)]
    simp; omega
  have g1 : script_MakeP2MS_1 (sigsRequired := m) = false := by
    simp [script_MakeP2MS_1]; omega
  rw [g0, g1]
  simp only [Bool.false_eq_true, if_false]
  rw [pushNumber_eq_spec m (by omega) (by omega), pushNumber_eq_spec keys.length (by omega) (by omega),
    pushAll_eq_spec keys hk]
  simp [Outcome.bind, Spec.Script.multisig, opByte, constants_OP_CHECKMULTISIG]

/-- `MakeP2MS` panics exactly when `m = 0` or `m > n` (for a uint32 `m`) -/
theorem makeP2MS_panic (m : Nat) (keys : List Bytes) (hm32 : m < 2 ^ 32) (h : m = 0 ∨ keys.length < m) :
    makeP2MS m keys = .panic := by
  unfold makeP2MS
  rcases h with h | h
  · have g0 : script_MakeP2MS_0 (sigsRequired := m) (len_publicKeys := keys.length) = false := by
      simp only [script_MakeP2MS_0]
      rw [wrapS_of_small _ _ (by omega) (by omega)]
      simp; omega
    have g1 : script_MakeP2MS_1 (sigsRequired := m) = true := by
      simp [script_MakeP2MS_1]; omega
    rw [g0, g1]; rfl
  · have g0 : script_MakeP2MS_0 (sigsRequired := m) (len_publicKeys := keys.length) = true := by
      simp only [script_MakeP2MS_0]
      rw [wrapS_of_small _ _ (by omega) (by omega)]
      simp; omega
    rw [g0]; rfl

theorem redeemP2PKH_spec (sig pk : Bytes) (h1 : sig.length < 2 ^ 32) (h2 : pk.length < 2 ^ 32) :
    redeemP2PKH sig pk = .ok (Spec.Script.push sig ++ Spec.Script.push pk) := by
  simp [redeemP2PKH, pushData_eq_spec sig h1, pushData_eq_spec pk h2, Outcome.bind]

theorem redeemP2SH_spec (spk redeem : Bytes) (h : spk.length < 2 ^ 32) :
    redeemP2SH spk redeem = .ok (redeem ++ Spec.Script.push spk) := by
  simp [redeemP2SH, pushData_eq_spec spk h, Outcome.bind]

theorem redeemP2MS_spec (sigs : List Bytes) (hne : sigs ≠ []) (h : ∀ s ∈ sigs, s.length < 2 ^ 32) :
    redeemP2MS sigs = .ok (0x00 :: (sigs.map Spec.Script.push).flatten) := by
  unfold redeemP2MS
  have : ¬ ((sigs.length : Int) = 0) := by
    cases sigs with
    | nil => exact absurd rfl hne
    | cons _ _ => simp; omega
  simp only [script_RedeemP2MS_0, this, decide_false, Bool.false_eq_true, if_false]
  rw [pushAll_eq_spec sigs h]
  simp [Outcome.bind, opByte, constants_OP_0]

end BtcVerif.Proofs.Script
