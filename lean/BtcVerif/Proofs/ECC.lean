/-
  Helper lemmas for C05 / C06 about the model of /repo/ecc that need only the field-level
  hypotheses `FieldHyp` (or none at all): point decoding = the standard parser, soundness,
  never-infinity, round trips, private-key sums, NewPrivateKey range.
  Group-level lemmas (ECDH, signatures, verification) are in `Proofs/ECCGroup.lean`.
-/
import BtcVerif.Proofs.CurveAbs

namespace BtcVerif.Proofs.ECC
open BtcVerif BtcVerif.Model.ECC BtcVerif.Gen.Guards BtcVerif.Proofs
open BtcVerif.Spec.ECC (liftX validPoint parsePoint encodeCompressed encodeUncompressed encodeXOnly IsStandardEncoding)

variable {C : CurveOps}

theorem u8_eq (b : UInt8) (k : Nat) (hk : k < 256) : b.toNat = k ↔ b = UInt8.ofNat k := by
  constructor
  · intro h; apply UInt8.toNat_inj.mp; simp [h]; omega
  · rintro rfl; simp; omega

theorem validPoint_iff (P : Pt) : validPoint C P = true ↔
    P.1 < C.p ∧ P.2 < C.p ∧ P.2 * P.2 % C.p = (P.1 * P.1 * P.1 + 7) % C.p := by
  simp [validPoint, and_assoc]

theorem liftX_some (H : FieldHyp C) {x : Nat} {P : Pt} (h : liftX C x = some P) :
    P.1 = x ∧ validPoint C P = true ∧ P.2 % 2 = 0 ∧ P.2 ≠ 0 ∧ x ≠ 0 := by
  unfold liftX at h
  have hp := H.p_gt
  have hodd := H.p_odd
  split at h
  · cases h
  · rename_i hxp
    have hlt := H.sqrtExp_lt ((x * x * x + 7) % C.p)
    have hc := H.no_y_zero x (by omega)
    simp only at h
    split at h
    · cases h
    · rename_i hr
      simp only [ne_eq, Decidable.not_not] at hr
      have hy0 : C.sqrtExp ((x * x * x + 7) % C.p) ≠ 0 := by
        intro h0; rw [h0] at hr; simp at hr; exact hc hr.symm
      have hx0 : x ≠ 0 := by
        intro h0; subst h0
        simp only [Nat.mul_zero, Nat.zero_add, H.seven_mod] at hr hlt
        exact H.no_x_zero _ hlt hr
      injection h with h
      subst h
      refine ⟨rfl, ?_, ?_, ?_, hx0⟩
      · rw [validPoint_iff]
        refine ⟨by simp; omega, ?_, ?_⟩
        · simp only; split <;> omega
        · simp only
          split
          · exact hr
          · rw [neg_sq_mod _ _ (by omega)]; exact hr
      · simp only; split <;> omega
      · simp only; split <;> omega

theorem liftX_complete (H : FieldHyp C) {x y : Nat} (h : validPoint C (x, y) = true) :
    ∃ yE, liftX C x = some (x, yE) ∧ (y = yE ∨ y + yE = C.p) := by
  rw [validPoint_iff] at h
  obtain ⟨hx, hy, he⟩ := h
  simp only at hx hy he
  have hs := H.sqrt_complete _ y hy he
  have hlt := H.sqrtExp_lt ((x * x * x + 7) % C.p)
  have hu := H.sqrt_unique _ y hlt hy (by rw [hs, he])
  unfold liftX
  simp only [show ¬ x ≥ C.p by omega, if_false, hs, ne_eq, not_true_eq_false]
  refine ⟨_, rfl, ?_⟩
  split <;> omega

theorem curveYValues_eq_liftX (H : FieldHyp C) (x : Nat) :
    curveYValues C x = (Spec.ECC.liftX C x).map (fun P => (P.2, C.p - P.2)) := by
  unfold curveYValues weierstrass Spec.ECC.liftX
  have hp := H.p_gt
  by_cases hx0 : x = 0
  · subst hx0
    have h7 := H.no_x_zero _ (H.sqrtExp_lt 7)
    simp [ecc_curveYValues_0, H.seven_mod, h7]
  · by_cases hxp : x ≥ C.p
    · simp [hx0, hxp]
    · have hc := H.no_y_zero x (by omega)
      have hlt := H.sqrtExp_lt ((x * x * x + 7) % C.p)
      simp only [hx0, hxp, if_false]
      by_cases hr : C.sqrtExp ((x * x * x + 7) % C.p) * C.sqrtExp ((x * x * x + 7) % C.p) % C.p = (x * x * x + 7) % C.p
      · have hy0 : C.sqrtExp ((x * x * x + 7) % C.p) ≠ 0 := by
          intro h0; rw [h0] at hr; simp at hr; exact hc hr.symm
        by_cases he : C.sqrtExp ((x * x * x + 7) % C.p) % 2 = 0
        · simp [hr, he, negateY, hy0, ecc_curveYValues_0]
          omega
        · simp [hr, he, negateY, hy0, ecc_curveYValues_0]
          omega
      · simp [hr]



def ofOption {α} : Option α → Outcome α
  | some a => .ok a
  | none => .err

@[simp] theorem ofOption_some {α} (a : α) : ofOption (some a) = .ok a := rfl
@[simp] theorem ofOption_none {α} : (ofOption (none : Option α)) = .err := rfl

theorem validPoint_neg (_H : FieldHyp C) {P : Pt} (h : validPoint C P = true) (h0 : P.2 ≠ 0) :
    validPoint C (P.1, C.p - P.2) = true := by
  rw [validPoint_iff] at h ⊢
  obtain ⟨hx, hy, he⟩ := h
  refine ⟨hx, by simp only; omega, ?_⟩
  simp only
  rw [neg_sq_mod _ _ (by omega)]; exact he

/-- uncompressed arm: the two-root membership test is the curve equation -/
theorem arm65 (H : FieldHyp C) (x y : Nat) :
    (if ecc_DeserializePoint_4 (curveYValues C x).isNone (curveYValues C x).isNone
        ((curveYValues C x).any (fun r => r.1 == y)) ((curveYValues C x).any (fun r => r.2 == y)) = true
      then Outcome.err else Outcome.ok (x, y)) =
    ofOption (if validPoint C (x, y) = true then some (x, y) else none) := by
  rw [curveYValues_eq_liftX H]
  by_cases hv : validPoint C (x, y) = true
  · obtain ⟨yE, hl, hy⟩ := liftX_complete H hv
    have hyE := (liftX_some H hl).2.1
    rw [validPoint_iff] at hyE
    simp only at hyE
    simp only [hl, hv, Option.map_some, ecc_DeserializePoint_4, Option.isNone_some, Option.any_some,
      if_true, ofOption_some]
    have : (yE == y || C.p - yE == y) = true := by
      simp only [Bool.or_eq_true, beq_iff_eq]
      omega
    simp [this]
  · simp only [hv, if_false, ofOption_none, Bool.false_eq_true]
    cases hl : liftX C x with
    | none => simp [ecc_DeserializePoint_4]
    | some P =>
      obtain ⟨hx, hvP, _, hy0, _⟩ := liftX_some H hl
      have hvN := validPoint_neg H hvP hy0
      simp only [Option.map_some, ecc_DeserializePoint_4, Option.isNone_some, Option.any_some]
      have h1 : ¬ (P.2 = y) := by
        intro h; apply hv; rw [← hx, ← h]; exact hvP
      have h2 : ¬ (C.p - P.2 = y) := by
        intro h; apply hv; rw [← hx, ← h]; exact hvN
      simp [h1, h2]

theorem deserializePoint_eq_spec (H : FieldHyp C) (bs : Bytes) :
    deserializePoint C bs = ofOption (parsePoint C bs) := by
  unfold deserializePoint parsePoint
  simp only [ecc_DeserializePoint_0, ecc_DeserializePoint_1, ecc_DeserializePoint_2]
  by_cases h65 : bs.length = 65
  · cases bs with
    | nil => simp at h65
    | cons pre rest =>
      have := arm65 H (beNat (rest.take 32)) (beNat (rest.drop 32))
      simp only [h65, ecc_DeserializePoint_3]
      by_cases h4 : pre = 4
      · subst h4
        simpa using this
      · have : pre.toNat ≠ 4 := fun h => h4 ((u8_eq pre 4 (by omega)).mp h)
        simp [this, h4]
  · by_cases h33 : bs.length = 33
    · cases bs with
      | nil => simp at h33
      | cons pre rest =>
        simp only [h33, ecc_DeserializePoint_5, ecc_DeserializePoint_6, ecc_DeserializePoint_7]
        simp only [curveYValues_eq_liftX H]
        by_cases h2 : pre = 2
        · subst h2
          cases hl : liftX C (beNat rest) with
          | none => simp
          | some P =>
            have := (liftX_some H hl).1
            simp [← this]
        · by_cases h3 : pre = 3
          · subst h3
            cases hl : liftX C (beNat rest) with
            | none => simp
            | some P =>
              have := (liftX_some H hl).1
              simp [← this]
          · have n2 : pre.toNat ≠ 2 := fun h => h2 ((u8_eq pre 2 (by omega)).mp h)
            have n3 : pre.toNat ≠ 3 := fun h => h3 ((u8_eq pre 3 (by omega)).mp h)
            cases hl : liftX C (beNat rest) with
            | none => simp [h2, h3]
            | some P => simp [h2, h3, n2, n3]
    · by_cases h32 : bs.length = 32
      · simp only [h32, ecc_DeserializePoint_8]
        simp only [curveYValues_eq_liftX H]
        cases hl : liftX C (beNat bs) with
        | none => simp
        | some P =>
          have := (liftX_some H hl).1
          simp [← this]
      · have e65 : ¬ ((bs.length : Int) = 65) := by omega
        have e33 : ¬ ((bs.length : Int) = 33) := by omega
        have e32 : ¬ ((bs.length : Int) = 32) := by omega
        simp [h65, h33, h32, e65, e33, e32]


/-! ### the standard parser accepts exactly the standard encodings -/

theorem validPoint_ne_zero (H : FieldHyp C) {P : Pt} (h : validPoint C P = true) : P.1 ≠ 0 ∧ P.2 ≠ 0 := by
  rw [validPoint_iff] at h
  obtain ⟨hx, hy, he⟩ := h
  constructor
  · intro h0
    rw [h0] at he
    simp only [Nat.mul_zero, Nat.zero_add, H.seven_mod] at he
    exact H.no_x_zero _ hy he
  · intro h0
    rw [h0] at he
    simp only [Nat.mul_zero, Nat.zero_mod] at he
    exact H.no_y_zero _ hx he.symm

theorem be32_lt (H : FieldHyp C) {v : Nat} (h : v < C.p) : beNat (beBytes 32 v) = v :=
  beNat_beBytes 32 v (by have := H.p_lt; omega)

theorem beBytes32_beNat {bs : Bytes} (h : bs.length = 32) : beBytes 32 (beNat bs) = bs := by
  rw [← h]; exact beBytes_beNat bs

theorem parsePoint_of_standard (H : FieldHyp C) {bs : Bytes} {P : Pt} (h : IsStandardEncoding C bs P) :
    parsePoint C bs = some P := by
  obtain ⟨hv, henc⟩ := h
  have hv' := (validPoint_iff P).mp hv
  have hodd := H.p_odd
  obtain ⟨yE, hl, hy⟩ := liftX_complete H (x := P.1) (y := P.2) hv
  obtain ⟨_, hvE, hpar, hE0, _⟩ := liftX_some H hl
  have hEv := (validPoint_iff _).mp hvE
  simp only at hpar hE0 hEv
  rcases henc with rfl | rfl | ⟨rfl, he⟩
  · unfold parsePoint encodeCompressed
    by_cases hp2 : P.2 % 2 = 0
    · have : P.2 = yE := by omega
      simp [hp2, be32_lt H hv'.1, hl, ← this]
    · have : C.p - yE = P.2 := by omega
      simp [hp2, be32_lt H hv'.1, hl, this]
  · unfold parsePoint encodeUncompressed
    simp [be32_lt H hv'.1, be32_lt H hv'.2.1, hv]
  · unfold parsePoint encodeXOnly
    have : P.2 = yE := by omega
    simp [be32_lt H hv'.1, hl, ← this]

theorem standard_of_parsePoint (H : FieldHyp C) {bs : Bytes} {P : Pt} (h : parsePoint C bs = some P) :
    IsStandardEncoding C bs P := by
  unfold parsePoint at h
  have hodd := H.p_odd
  split at h
  · rename_i h33
    cases bs with
    | nil => simp at h33
    | cons pre rest =>
      have hr : rest.length = 32 := by simpa using h33
      simp only at h
      split at h
      · rename_i h2
        obtain ⟨hx, hv, hpar, _, _⟩ := liftX_some H h
        refine ⟨hv, Or.inl ?_⟩
        simp [encodeCompressed, hpar, hx, beBytes32_beNat hr, h2]
      · split at h
        · rename_i h2 h3
          cases hl : liftX C (beNat rest) with
          | none => simp [hl] at h
          | some Q =>
            simp only [hl, Option.map_some, Option.some.injEq] at h
            obtain ⟨hx, hv, hpar, h0, _⟩ := liftX_some H hl
            have hvQ := (validPoint_iff Q).mp hv
            subst h
            refine ⟨validPoint_neg H hv h0, Or.inl ?_⟩
            have : (C.p - Q.2) % 2 ≠ 0 := by omega
            simp [encodeCompressed, this, hx, beBytes32_beNat hr, h3]
        · cases h
  · split at h
    · rename_i h65
      cases bs with
      | nil => simp at h65
      | cons pre rest =>
        have hr : rest.length = 64 := by simpa using h65
        simp only at h
        split at h
        · rename_i h4
          split at h
          · rename_i hv
            injection h with h
            subst h
            refine ⟨hv, Or.inr (Or.inl ?_)⟩
            have ht : (rest.take 32).length = 32 := by simp [hr]
            have hd : (rest.drop 32).length = 32 := by simp [hr]
            simp [encodeUncompressed, beBytes32_beNat ht, beBytes32_beNat hd, h4]
          · cases h
        · cases h
    · split at h
      · rename_i h32
        obtain ⟨hx, hv, hpar, _, _⟩ := liftX_some H h
        refine ⟨hv, Or.inr (Or.inr ⟨?_, hpar⟩)⟩
        simp [encodeXOnly, hx, beBytes32_beNat h32]
      · cases h

/-- `accepts_iff_standard_encoding` -/
theorem deserializePoint_ok_iff (H : FieldHyp C) (bs : Bytes) (P : Pt) :
    deserializePoint C bs = .ok P ↔ IsStandardEncoding C bs P := by
  rw [deserializePoint_eq_spec H]
  constructor
  · intro h
    cases hp : parsePoint C bs with
    | none => simp [hp] at h
    | some Q =>
      simp only [hp, ofOption_some, Outcome.ok.injEq] at h
      subst h
      exact standard_of_parsePoint H hp
  · intro h
    rw [parsePoint_of_standard H h]; rfl

theorem deserializePoint_ne_panic (H : FieldHyp C) (bs : Bytes) : deserializePoint C bs ≠ .panic := by
  rw [deserializePoint_eq_spec H]
  cases parsePoint C bs <;> simp [ofOption]

theorem deserialize_sound (H : FieldHyp C) {bs : Bytes} {P : Pt} (h : deserializePoint C bs = .ok P) :
    validPoint C P = true ∧ P.1 ≠ 0 ∧ P.2 ≠ 0 := by
  have hs := (deserializePoint_ok_iff H bs P).mp h
  exact ⟨hs.1, validPoint_ne_zero H hs.1⟩


/-! ### never infinity — no hypothesis at all (the content of the D8 repair) -/

theorem curveYValues_ne_zero {x ey oy : Nat} (h : curveYValues C x = some (ey, oy)) :
    x ≠ 0 ∧ ey ≠ 0 ∧ oy ≠ 0 := by
  unfold curveYValues at h
  cases hw : weierstrass C x with
  | none => simp [hw] at h
  | some r =>
    obtain ⟨a, b⟩ := r
    simp only [hw, ecc_curveYValues_0] at h
    by_cases ha : a = 0
    · simp [ha] at h
    · by_cases hb : b = 0
      · simp [hb] at h
      · simp [ha, hb] at h
        obtain ⟨rfl, rfl⟩ := h
        refine ⟨?_, ha, hb⟩
        intro h0; subst h0
        simp [weierstrass] at hw
        exact ha hw.1.symm

/-- structure of an accepted decoding, without any hypothesis -/
theorem deserializePoint_ok_roots {bs : Bytes} {P : Pt} (h : deserializePoint C bs = .ok P) :
    ∃ ey oy, curveYValues C P.1 = some (ey, oy) ∧ (P.2 = ey ∨ P.2 = oy) := by
  unfold deserializePoint at h
  simp only [ecc_DeserializePoint_0, ecc_DeserializePoint_1, ecc_DeserializePoint_2] at h
  by_cases h65 : bs.length = 65
  · cases bs with
    | nil => simp at h65
    | cons pre rest =>
      simp only [h65, ecc_DeserializePoint_3, ecc_DeserializePoint_4] at h
      cases hc : curveYValues C (beNat (List.take 32 rest)) with
      | none => simp [hc] at h
      | some r =>
        obtain ⟨ey, oy⟩ := r
        simp only [hc] at h
        by_cases h4 : pre.toNat = 4
        · by_cases h1 : ey = beNat (List.drop 32 rest)
          · simp [h4, h1] at h
            subst h
            exact ⟨_, _, hc, Or.inl h1.symm⟩
          · by_cases h2 : oy = beNat (List.drop 32 rest)
            · simp [h4, h2] at h
              subst h
              exact ⟨_, _, hc, Or.inr h2.symm⟩
            · simp [h4, h1, h2] at h
        · simp [h4] at h
  · have e65 : ¬ ((bs.length : Int) = 65) := by omega
    by_cases h33 : bs.length = 33
    · cases bs with
      | nil => simp at h33
      | cons pre rest =>
        simp only [h33, ecc_DeserializePoint_5, ecc_DeserializePoint_6, ecc_DeserializePoint_7] at h
        cases hc : curveYValues C (beNat rest) with
        | none => simp [hc] at h
        | some r =>
          obtain ⟨ey, oy⟩ := r
          by_cases h2 : pre.toNat = 2
          · simp [hc, h2] at h
            subst h
            exact ⟨_, _, hc, Or.inl rfl⟩
          · by_cases h3 : pre.toNat = 3
            · simp [hc, h2, h3] at h
              subst h
              exact ⟨_, _, hc, Or.inr rfl⟩
            · simp [hc, h2, h3] at h
    · have e33 : ¬ ((bs.length : Int) = 33) := by omega
      by_cases h32 : bs.length = 32
      · simp only [h32, ecc_DeserializePoint_8] at h
        cases hc : curveYValues C (beNat bs) with
        | none => simp [hc] at h
        | some r =>
          obtain ⟨ey, oy⟩ := r
          simp [hc] at h
          subst h
          exact ⟨_, _, hc, Or.inl rfl⟩
      · have e32 : ¬ ((bs.length : Int) = 32) := by omega
        simp [e65, e33, e32] at h

/-- the decoder never panics, whatever the curve operations are -/
theorem deserializePoint_ne_panic' (bs : Bytes) : deserializePoint C bs ≠ .panic := by
  unfold deserializePoint
  simp only
  by_cases g0 : ecc_DeserializePoint_0 bs.length = true
  · rw [if_pos g0]
    cases bs with
    | nil => simp [ecc_DeserializePoint_0] at g0
    | cons pre rest =>
      simp only
      split
      · simp
      · split <;> simp
  · rw [if_neg g0]
    by_cases g1 : ecc_DeserializePoint_1 bs.length = true
    · rw [if_pos g1]
      cases bs with
      | nil => simp [ecc_DeserializePoint_1] at g1
      | cons pre rest =>
        simp only
        cases curveYValues C (beNat rest) with
        | none => simp
        | some r =>
          obtain ⟨ey, oy⟩ := r
          simp only
          split
          · simp
          · split
            · simp
            · split <;> simp
    · rw [if_neg g1]
      by_cases g2 : ecc_DeserializePoint_2 bs.length = true
      · rw [if_pos g2]
        cases curveYValues C (beNat bs) with
        | none => simp
        | some r =>
          obtain ⟨ey, oy⟩ := r
          simp only
          split <;> simp
      · rw [if_neg g2]; simp

/-- whatever the curve operations are, a decoded point has no zero coordinate; in particular it is
    never ekliptic's point at infinity `(0,0)` -/
theorem deserialize_never_infinity {bs : Bytes} {P : Pt} (h : deserializePoint C bs = .ok P) :
    P.1 ≠ 0 ∧ P.2 ≠ 0 := by
  obtain ⟨ey, oy, hc, hy⟩ := deserializePoint_ok_roots h
  obtain ⟨hx, he, ho⟩ := curveYValues_ne_zero hc
  refine ⟨hx, ?_⟩
  rcases hy with hy | hy <;> rw [hy] <;> assumption

/-! ### serialisation of finite curve points, round trips -/

theorem fillBytes32_lt {v : Nat} (h : v < 2 ^ 256) : fillBytes32 v = .ok (beBytes 32 v) := by
  unfold fillBytes32; rw [if_pos h]

theorem marshalGuard_valid (H : FieldHyp C) {P : Pt} (h : validPoint C P = true) : marshalGuard C P = true := by
  have h0 := validPoint_ne_zero H h
  have he := ((validPoint_iff P).mp h).2.2
  simp [marshalGuard, curveIsOnCurve, isOnCurveAffine, h0.1, he]

theorem serializeCompressed_valid (H : FieldHyp C) {P : Pt} (h : validPoint C P = true) :
    serializeCompressed C P = .ok (encodeCompressed P) := by
  have hx := ((validPoint_iff P).mp h).1
  have := H.p_lt
  unfold serializeCompressed
  rw [marshalGuard_valid H h, fillBytes32_lt (by omega)]
  simp [encodeCompressed]

theorem serializeUncompressed_valid (H : FieldHyp C) {P : Pt} (h : validPoint C P = true) :
    serializeUncompressed C P = .ok (encodeUncompressed P) := by
  have hx := (validPoint_iff P).mp h
  have := H.p_lt
  unfold serializeUncompressed
  rw [marshalGuard_valid H h, fillBytes32_lt (by omega), fillBytes32_lt (by omega)]
  simp [encodeUncompressed]

theorem serialize_deserialize (H : FieldHyp C) {P : Pt} (h : validPoint C P = true) :
    (serializeCompressed C P >>= deserializePoint C) = .ok P ∧
    (serializeUncompressed C P >>= deserializePoint C) = .ok P ∧
    (P.2 % 2 = 0 → (fillBytes32 P.1 >>= deserializePoint C) = .ok P) := by
  have hx := (validPoint_iff P).mp h
  have := H.p_lt
  refine ⟨?_, ?_, ?_⟩
  · rw [serializeCompressed_valid H h, Outcome.bind_ok]
    exact (deserializePoint_ok_iff H _ P).mpr ⟨h, Or.inl rfl⟩
  · rw [serializeUncompressed_valid H h, Outcome.bind_ok]
    exact (deserializePoint_ok_iff H _ P).mpr ⟨h, Or.inr (Or.inl rfl)⟩
  · intro he
    rw [fillBytes32_lt (by omega), Outcome.bind_ok]
    exact (deserializePoint_ok_iff H _ P).mpr ⟨h, Or.inr (Or.inr ⟨rfl, he⟩)⟩

theorem encodeCompressed_length (P : Pt) : (encodeCompressed P).length = 33 := by simp [encodeCompressed]
theorem encodeUncompressed_length (P : Pt) : (encodeUncompressed P).length = 65 := by simp [encodeUncompressed]
theorem encodeXOnly_length (P : Pt) : (encodeXOnly P).length = 32 := by simp [encodeXOnly]

/-- re-encoding a decoded point in the format it came in reproduces the input -/
theorem deserialize_serialize (H : FieldHyp C) {bs : Bytes} {P : Pt} (h : deserializePoint C bs = .ok P) :
    (bs.length = 33 → serializeCompressed C P = .ok bs) ∧
    (bs.length = 65 → serializeUncompressed C P = .ok bs) ∧
    (bs.length = 32 → fillBytes32 P.1 = .ok bs ∧ P.2 % 2 = 0) := by
  obtain ⟨hv, henc⟩ := (deserializePoint_ok_iff H bs P).mp h
  have hx := (validPoint_iff P).mp hv
  have := H.p_lt
  rcases henc with rfl | rfl | ⟨rfl, he⟩
  · simp [encodeCompressed_length, serializeCompressed_valid H hv]
  · simp [encodeUncompressed_length, serializeUncompressed_valid H hv]
  · simp only [encodeXOnly_length, true_implies]
    refine ⟨by simp, by simp, ?_⟩
    rw [fillBytes32_lt (by omega)]
    exact ⟨rfl, he⟩

/-- `CompressPublicKey` / `UncompressPublicKey` are mutually inverse on their images, and each is
    the identity on keys already in its own format -/
theorem compress_uncompress_inverse (H : FieldHyp C) {pub c : Bytes} (h : compressPublicKey C pub = .ok c) :
    ∃ u, uncompressPublicKey C c = .ok u ∧ compressPublicKey C u = .ok c ∧ compressPublicKey C c = .ok c := by
  unfold compressPublicKey at h
  cases hd : deserializePoint C pub with
  | err => simp [hd] at h
  | panic => simp [hd] at h
  | ok P =>
    rw [hd] at h
    have hv := (deserialize_sound H hd).1
    simp only [Outcome.bind_ok, serializeCompressed_valid H hv, Outcome.ok.injEq] at h
    subst h
    have hc : deserializePoint C (encodeCompressed P) = .ok P :=
      (deserializePoint_ok_iff H _ P).mpr ⟨hv, Or.inl rfl⟩
    have hu : deserializePoint C (encodeUncompressed P) = .ok P :=
      (deserializePoint_ok_iff H _ P).mpr ⟨hv, Or.inr (Or.inl rfl)⟩
    refine ⟨encodeUncompressed P, ?_, ?_, ?_⟩
    · simp [uncompressPublicKey, hc, serializeUncompressed_valid H hv]
    · simp [compressPublicKey, hu, serializeCompressed_valid H hv]
    · simp [compressPublicKey, hc, serializeCompressed_valid H hv]

theorem uncompress_compress_inverse (H : FieldHyp C) {pub u : Bytes} (h : uncompressPublicKey C pub = .ok u) :
    ∃ c, compressPublicKey C u = .ok c ∧ uncompressPublicKey C c = .ok u ∧ uncompressPublicKey C u = .ok u := by
  unfold uncompressPublicKey at h
  cases hd : deserializePoint C pub with
  | err => simp [hd] at h
  | panic => simp [hd] at h
  | ok P =>
    rw [hd] at h
    have hv := (deserialize_sound H hd).1
    simp only [Outcome.bind_ok, serializeUncompressed_valid H hv, Outcome.ok.injEq] at h
    subst h
    have hc : deserializePoint C (encodeCompressed P) = .ok P :=
      (deserializePoint_ok_iff H _ P).mpr ⟨hv, Or.inl rfl⟩
    have hu : deserializePoint C (encodeUncompressed P) = .ok P :=
      (deserializePoint_ok_iff H _ P).mpr ⟨hv, Or.inr (Or.inl rfl)⟩
    refine ⟨encodeCompressed P, ?_, ?_, ?_⟩
    · simp [compressPublicKey, hu, serializeCompressed_valid H hv]
    · simp [uncompressPublicKey, hc, serializeUncompressed_valid H hv]
    · simp [uncompressPublicKey, hu, serializeUncompressed_valid H hv]


/-! ### sums of private keys, NewPrivateKey -/

theorem sumPrivLoop_valid (ks : List Bytes) (acc : Nat)
    (h : ∀ k ∈ ks, isValidScalar C (beNat k) = true) :
    sumPrivLoop C ks acc = .ok (acc + (ks.map beNat).sum) := by
  induction ks generalizing acc with
  | nil => simp [sumPrivLoop]
  | cons k ks ih =>
    have hk := h k (by simp)
    simp only [sumPrivLoop, ecc_SumPrivateKeys_0, hk, Bool.not_true, Bool.false_eq_true, if_false,
      List.map_cons, List.sum_cons]
    rw [ih _ (fun k' hk' => h k' (by simp [hk']))]
    congr 1; omega

theorem sumPrivLoop_invalid (ks : List Bytes) (acc : Nat)
    (h : ∃ k ∈ ks, isValidScalar C (beNat k) = false) : sumPrivLoop C ks acc = .err := by
  induction ks generalizing acc with
  | nil => simp at h
  | cons k ks ih =>
    by_cases hk : isValidScalar C (beNat k) = true
    · simp only [sumPrivLoop, ecc_SumPrivateKeys_0, hk, Bool.not_true, Bool.false_eq_true, if_false]
      apply ih
      obtain ⟨k', hm, hv⟩ := h
      rcases List.mem_cons.mp hm with rfl | hm
      · rw [hk] at hv; cases hv
      · exact ⟨k', hm, hv⟩
    · simp [sumPrivLoop, ecc_SumPrivateKeys_0, hk]

theorem sumPrivLoop_ne_panic (ks : List Bytes) (acc : Nat) : sumPrivLoop C ks acc ≠ .panic := by
  induction ks generalizing acc with
  | nil => simp [sumPrivLoop]
  | cons k ks ih =>
    simp only [sumPrivLoop]
    split
    · simp
    · exact ih _

theorem sumPrivateKeys_spec (hn : 0 < C.n) (hn2 : C.n ≤ 2 ^ 256) (ks : List Bytes)
    (h : ∀ k ∈ ks, isValidScalar C (beNat k) = true) :
    sumPrivateKeys C ks = .ok (beBytes 32 (Spec.ECC.sumPriv C (ks.map beNat))) := by
  unfold sumPrivateKeys
  rw [sumPrivLoop_valid ks 0 h, Outcome.bind_ok, Nat.zero_add]
  have : (ks.map beNat).sum % C.n < 2 ^ 256 := by
    have := Nat.mod_lt (ks.map beNat).sum hn
    omega
  rw [fillBytes32_lt this]
  rfl

theorem sumPrivateKeys_ne_panic (hn : 0 < C.n) (hn2 : C.n ≤ 2 ^ 256) (ks : List Bytes) :
    sumPrivateKeys C ks ≠ .panic := by
  unfold sumPrivateKeys
  cases hl : sumPrivLoop C ks 0 with
  | panic => exact absurd hl (sumPrivLoop_ne_panic ks 0)
  | err => simp
  | ok v =>
    have : v % C.n < 2 ^ 256 := by
      have := Nat.mod_lt v hn
      omega
    rw [Outcome.bind_ok, fillBytes32_lt this]
    simp

theorem newPrivateKeyLoop_range (hn2 : C.n ≤ 2 ^ 256) (fuel : Nat) (s k : Bytes)
    (h : newPrivateKeyLoop C fuel s = .ok k) : k.length = 32 ∧ 1 ≤ beNat k ∧ beNat k < C.n := by
  induction fuel generalizing s with
  | zero => simp [newPrivateKeyLoop] at h
  | succ f ih =>
    simp only [newPrivateKeyLoop] at h
    split at h
    · cases h
    · split at h
      · rename_i hv
        have hlt : beNat (List.take 32 s) + 1 < 2 ^ 256 := by omega
        rw [fillBytes32_lt hlt] at h
        injection h with h
        subst h
        refine ⟨by simp, ?_, ?_⟩
        · rw [beNat_beBytes 32 _ (by simpa using hlt)]; omega
        · rw [beNat_beBytes 32 _ (by simpa using hlt)]; omega
      · exact ih _ h

end BtcVerif.Proofs.ECC
