/-
  C15 — `FeeRangeForBlock`: the loop computes the minimum and the maximum of the per-transaction fee
  rates (ordered as binary64 values), the `-1.0` sentinel never leaks, and a block with only a coinbase
  yields (0, 0).
-/
import BtcVerif.Proofs.F64
import BtcVerif.Proofs.Fee

namespace BtcVerif.Proofs.FeeRange
open BtcVerif BtcVerif.Model BtcVerif.Model.Fee BtcVerif.Prim BtcVerif.Proofs.F64

/-- a non-negative number or +∞ (what a fee rate is) -/
def NonNeg : F64 → Prop
  | .fin false _ _ => True
  | .inf false => True
  | _ => False

instance : DecidablePred NonNeg := fun x => by
  cases x with
  | nan => exact isFalse (by simp [NonNeg])
  | inf neg => cases neg <;> simp [NonNeg] <;> infer_instance
  | fin neg m e => cases neg <;> simp [NonNeg] <;> infer_instance

theorem key_nonneg {x : F64} (h : NonNeg x) : 0 ≤ F64.key x := by
  cases x with
  | nan => simp [NonNeg] at h
  | inf neg => cases neg <;> simp [NonNeg] at h; simp only [F64.key]; exact Int.natCast_nonneg _
  | fin neg m e => cases neg <;> simp [NonNeg] at h; simp only [F64.key]; exact Int.natCast_nonneg _

theorem key_minusOne_neg : F64.key minusOne < 0 := by
  simp only [minusOne, F64.key, if_true]
  have : 0 < 2 ^ 52 * 2 ^ ((-52 : ℤ) + 1074).toNat := Nat.mul_pos (Nat.two_pow_pos _) (Nat.two_pow_pos _)
  omega

theorem lt_eq_of_nonneg {a b : F64} (ha : NonNeg a) (hb : NonNeg b) :
    F64.lt a b = decide (F64.key a < F64.key b) := by
  cases a <;> cases b <;> simp_all [NonNeg, F64.lt]

theorem eq_minusOne_of_nonneg {a : F64} (ha : NonNeg a) : F64.eq a minusOne = false := by
  have h1 := key_nonneg ha
  have h2 := key_minusOne_neg
  cases a with
  | nan => simp [NonNeg] at ha
  | inf neg => simp only [F64.eq, minusOne, decide_eq_false_iff_not]; simp only [minusOne] at h2; omega
  | fin neg m e => simp only [F64.eq, minusOne, decide_eq_false_iff_not]; simp only [minusOne] at h2; omega

theorem eq_minusOne_self : F64.eq minusOne minusOne = true := by simp [F64.eq, minusOne]

/-! ### the two folds -/

def maxLoop (rs : List F64) (mx : F64) : F64 := rs.foldl (fun mx r => if F64.lt mx r then r else mx) mx
def minLoop (rs : List F64) (mn : F64) : F64 :=
  rs.foldl (fun mn r => if F64.lt r mn || F64.eq mn minusOne then r else mn) mn

/-- the fee rates of a list of transactions, when all of them are defined -/
def ratesOf (get : PrevOut → Option Nat) : List Tx → Option (List F64)
  | [] => some []
  | t :: rest =>
    match feePerVByte get t, ratesOf get rest with
    | .ok r, some rs => some (r :: rs)
    | _, _ => none

theorem feePerVByte_ne_panic (get : PrevOut → Option Nat) (t : Tx) : feePerVByte get t ≠ .panic := by
  unfold feePerVByte
  have := Proofs.Fee.totalFeeValue_ne_panic get t
  cases h : totalFeeValue get t <;> simp_all

theorem feeRangeLoop_eq (get : PrevOut → Option Nat) (txs : List Tx) (rs : List F64) (mn mx : F64)
    (h : ratesOf get txs = some rs) : feeRangeLoop get txs mn mx = .ok (minLoop rs mn, maxLoop rs mx) := by
  induction txs generalizing rs mn mx with
  | nil => simp [ratesOf] at h; subst h; rfl
  | cons t rest ih =>
    unfold ratesOf at h
    cases hr : feePerVByte get t with
    | ok r =>
      cases hrs : ratesOf get rest with
      | none => simp [hr, hrs] at h
      | some rs' =>
        simp only [hr, hrs, Option.some.injEq] at h
        subst h
        simp only [feeRangeLoop, hr]
        rw [ih rs' _ _ hrs]
        rfl
    | err => simp [hr] at h
    | panic => simp [hr] at h

theorem feeRangeLoop_err (get : PrevOut → Option Nat) (txs : List Tx) (mn mx : F64)
    (h : ratesOf get txs = none) : feeRangeLoop get txs mn mx = .err := by
  induction txs generalizing mn mx with
  | nil => simp [ratesOf] at h
  | cons t rest ih =>
    unfold ratesOf at h
    cases hr : feePerVByte get t with
    | ok r =>
      cases hrs : ratesOf get rest with
      | none => simp only [feeRangeLoop, hr]; exact ih _ _ hrs
      | some rs' => simp [hr, hrs] at h
    | err => simp [feeRangeLoop, hr]
    | panic => exact absurd hr (feePerVByte_ne_panic get t)

theorem maxLoop_spec (rs : List F64) (mx : F64) (hmx : NonNeg mx) (h : ∀ r ∈ rs, NonNeg r) :
    NonNeg (maxLoop rs mx) ∧ F64.key mx ≤ F64.key (maxLoop rs mx) ∧
    (∀ r ∈ rs, F64.key r ≤ F64.key (maxLoop rs mx)) ∧ (maxLoop rs mx = mx ∨ maxLoop rs mx ∈ rs) := by
  induction rs generalizing mx with
  | nil => simp [maxLoop, hmx]
  | cons r rest ih =>
    have hr : NonNeg r := h r (by simp)
    have hrest : ∀ r' ∈ rest, NonNeg r' := fun r' hr' => h r' (by simp [hr'])
    have hstep : maxLoop (r :: rest) mx = maxLoop rest (if F64.lt mx r then r else mx) := rfl
    rw [hstep, lt_eq_of_nonneg hmx hr]
    by_cases hc : F64.key mx < F64.key r
    · simp only [hc, decide_true, if_true]
      obtain ⟨h1, h2, h3, h4⟩ := ih r hr hrest
      refine ⟨h1, by omega, ?_, ?_⟩
      · intro r' hr'
        rcases List.mem_cons.mp hr' with rfl | hr'
        · exact h2
        · exact h3 r' hr'
      · right
        rcases h4 with h4 | h4
        · rw [h4]; simp
        · simp [h4]
    · simp only [hc, decide_false, Bool.false_eq_true, if_false]
      obtain ⟨h1, h2, h3, h4⟩ := ih mx hmx hrest
      refine ⟨h1, h2, ?_, ?_⟩
      · intro r' hr'
        rcases List.mem_cons.mp hr' with rfl | hr'
        · omega
        · exact h3 r' hr'
      · rcases h4 with h4 | h4
        · left; exact h4
        · right; simp [h4]

/-- the minimum fold from a proper (non-sentinel) start -/
theorem minLoop_spec (rs : List F64) (mn : F64) (hmn : NonNeg mn) (h : ∀ r ∈ rs, NonNeg r) :
    NonNeg (minLoop rs mn) ∧ F64.key (minLoop rs mn) ≤ F64.key mn ∧
    (∀ r ∈ rs, F64.key (minLoop rs mn) ≤ F64.key r) ∧ (minLoop rs mn = mn ∨ minLoop rs mn ∈ rs) := by
  induction rs generalizing mn with
  | nil => simp [minLoop, hmn]
  | cons r rest ih =>
    have hr : NonNeg r := h r (by simp)
    have hrest : ∀ r' ∈ rest, NonNeg r' := fun r' hr' => h r' (by simp [hr'])
    have hstep : minLoop (r :: rest) mn = minLoop rest (if F64.lt r mn || F64.eq mn minusOne then r else mn) := rfl
    rw [hstep, lt_eq_of_nonneg hr hmn, eq_minusOne_of_nonneg hmn, Bool.or_false]
    by_cases hc : F64.key r < F64.key mn
    · simp only [hc, decide_true, if_true]
      obtain ⟨h1, h2, h3, h4⟩ := ih r hr hrest
      refine ⟨h1, by omega, ?_, ?_⟩
      · intro r' hr'
        rcases List.mem_cons.mp hr' with rfl | hr'
        · exact h2
        · exact h3 r' hr'
      · right
        rcases h4 with h4 | h4
        · rw [h4]; simp
        · simp [h4]
    · simp only [hc, decide_false, Bool.false_eq_true, if_false]
      obtain ⟨h1, h2, h3, h4⟩ := ih mn hmn hrest
      refine ⟨h1, h2, ?_, ?_⟩
      · intro r' hr'
        rcases List.mem_cons.mp hr' with rfl | hr'
        · omega
        · exact h3 r' hr'
      · rcases h4 with h4 | h4
        · left; exact h4
        · right; simp [h4]

/-- from the sentinel: the first rate replaces it -/
theorem minLoop_sentinel (r : F64) (rest : List F64) : minLoop (r :: rest) minusOne = minLoop rest r := by
  have hstep : minLoop (r :: rest) minusOne =
      minLoop rest (if F64.lt r minusOne || F64.eq minusOne minusOne then r else minusOne) := rfl
  rw [hstep, eq_minusOne_self, Bool.or_true, if_pos rfl]

/-- `FeeRangeForBlock`: the coinbase is skipped. With non-negative rates `rs` for the remaining
    transactions the result is `(min, max)`: members of `rs` bounding every rate; for a block with only
    the coinbase it is `(0, 0)`; an undefined rate is the error; no transactions: panic. -/
theorem fee_range_spec (get : PrevOut → Option Nat) (b : Block) :
    (b.txs = [] → feeRangeForBlock get b = .panic) ∧
    (∀ cb, b.txs = [cb] → feeRangeForBlock get b = .ok (F64.zero false, F64.zero false)) ∧
    (∀ cb rest, b.txs = cb :: rest → ratesOf get rest = none → feeRangeForBlock get b = .err) ∧
    (∀ cb t rest rs, b.txs = cb :: t :: rest → ratesOf get (t :: rest) = some rs → (∀ r ∈ rs, NonNeg r) →
      ∃ mn mx, feeRangeForBlock get b = .ok (mn, mx) ∧ mn ∈ rs ∧ (mx ∈ rs ∨ mx = F64.zero false) ∧
        ∀ r ∈ rs, F64.key mn ≤ F64.key r ∧ F64.key r ≤ F64.key mx) := by
  refine ⟨fun h => by simp [feeRangeForBlock, h], fun cb h => ?_, fun cb rest h hr => ?_, ?_⟩
  · simp [feeRangeForBlock, h, feeRangeLoop, eq_minusOne_self]
  · simp [feeRangeForBlock, h, feeRangeLoop_err get rest _ _ hr]
  · intro cb t rest rs h hrs hnn
    have hz : NonNeg (F64.zero false) := by simp [F64.zero, NonNeg]
    cases rs with
    | nil =>
      unfold ratesOf at hrs
      cases h1 : feePerVByte get t <;> cases h2 : ratesOf get rest <;> simp [h1, h2] at hrs
    | cons r0 rs' =>
      have hr0 : NonNeg r0 := hnn r0 (by simp)
      have hrs' : ∀ r ∈ rs', NonNeg r := fun r hr => hnn r (by simp [hr])
      obtain ⟨a1, a2, a3, a4⟩ := minLoop_spec rs' r0 hr0 hrs'
      obtain ⟨b1, b2, b3, b4⟩ := maxLoop_spec (r0 :: rs') (F64.zero false) hz hnn
      refine ⟨minLoop rs' r0, maxLoop (r0 :: rs') (F64.zero false), ?_, ?_, ?_, ?_⟩
      · simp only [feeRangeForBlock, h, feeRangeLoop_eq get (t :: rest) (r0 :: rs') _ _ hrs, minLoop_sentinel,
          eq_minusOne_of_nonneg a1]
        simp
      · rcases a4 with a4 | a4
        · rw [a4]; simp
        · simp [a4]
      · rcases b4 with b4 | b4
        · right; exact b4
        · left; exact b4
      · intro r hr
        refine ⟨?_, b3 r hr⟩
        rcases List.mem_cons.mp hr with rfl | hr
        · exact a2
        · exact a3 r hr


/-! ### actual fee rates are non-negative numbers -/

theorem ofRat_false_nonneg (n d : Nat) : NonNeg (F64.ofRat false n d) := by
  unfold F64.ofRat
  split
  · simp [F64.zero, NonNeg]
  · simp only
    split
    · simp [NonNeg]
    · split <;> simp [NonNeg]

theorem vsizeTx_pos (t : Tx) : 0 < vsizeTx t := by
  have h8 : 8 ≤ sizeTx t false := by unfold sizeTx; omega
  unfold vsizeTx weightTx
  simp only
  omega

/-- a fee rate is a non-negative number (never NaN, never the sentinel) -/
theorem feePerVByte_nonneg (get : PrevOut → Option Nat) (t : Tx) (r : F64) (hv : vsizeTx t < 2 ^ 53)
    (h : feePerVByte get t = .ok r) : NonNeg r := by
  unfold feePerVByte at h
  cases hf : totalFeeValue get t with
  | ok fee =>
    simp only [hf, Outcome.ok.injEq] at h
    subst h
    obtain ⟨m, e, hfin, hval, _, _⟩ := ofNat_exact (vsizeTx t) (vsizeTx_pos t) hv
    have hm : m ≠ 0 := by
      intro h0
      rw [h0] at hval
      have : (0 : ℚ) < (vsizeTx t : ℚ) := by exact_mod_cast vsizeTx_pos t
      simp at hval
      linarith
    have hnum := ofRat_false_nonneg fee 1
    unfold F64.ofNat
    rw [hfin]
    cases hnumv : F64.ofRat false fee 1 with
    | nan => rw [hnumv] at hnum; simp [NonNeg] at hnum
    | inf neg =>
      rw [hnumv] at hnum
      cases neg <;> simp [NonNeg] at hnum
      simp [F64.div, NonNeg]
    | fin neg m' e' =>
      rw [hnumv] at hnum
      cases neg <;> simp [NonNeg] at hnum
      simp only [F64.div, hm, if_false]
      split <;> exact ofRat_false_nonneg _ _
  | err => simp [hf] at h
  | panic => simp [hf] at h

theorem ratesOf_nonneg (get : PrevOut → Option Nat) (txs : List Tx) (rs : List F64)
    (hv : ∀ t ∈ txs, vsizeTx t < 2 ^ 53) (h : ratesOf get txs = some rs) : ∀ r ∈ rs, NonNeg r := by
  induction txs generalizing rs with
  | nil => simp [ratesOf] at h; subst h; simp
  | cons t rest ih =>
    unfold ratesOf at h
    cases hr : feePerVByte get t with
    | ok r0 =>
      cases hrs : ratesOf get rest with
      | none => simp [hr, hrs] at h
      | some rs' =>
        simp only [hr, hrs, Option.some.injEq] at h
        subst h
        intro r hmem
        rcases List.mem_cons.mp hmem with rfl | hmem
        · exact feePerVByte_nonneg get t _ (hv t (by simp)) hr
        · exact ih rs' (fun t' ht' => hv t' (by simp [ht'])) hrs r hmem
    | err => simp [hr] at h
    | panic => simp [hr] at h

end BtcVerif.Proofs.FeeRange
