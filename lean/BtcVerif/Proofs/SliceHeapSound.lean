/-
C18 — soundness of the ownership checker (frame part): if every function of a program is consistent
with its tags and summary (`bodyOk`), then every execution (every trace, every heap, every argument
layout) of a function changes an array that existed at the call only if that array is addressed by a
parameter listed in the function's `touches` summary.
-/
import BtcVerif.Proofs.SliceHeap

namespace BtcVerif.Proofs.SliceHeap
open BtcVerif.Model.SliceHeap

/-- `s` lives in memory allocated after the call (`n0 ≤ arr`) or in an array of a parameter in `T` -/
def Own (P : Nat → Nat → Prop) (n0 : Nat) (T : List Nat) (s : Slice) : Prop :=
  n0 ≤ s.arr ∨ ∃ j ∈ T, P j s.arr

/-- every register respects its tag -/
def EnvOk (P : Nat → Nat → Prop) (n0 : Nat) (f : FuncIR) (env : Env) : Prop :=
  ∀ r s, s ∈ env r → Own P n0 (tagOf f r) s

/-- registers declared capped hold only slices with `cap = len` -/
def CapOk (f : FuncIR) (env : Env) : Prop :=
  ∀ r, f.cappedRegs.contains r = true → ∀ s, s ∈ env r → s.cap = s.len

theorem Own.mono {P n0 T T'} {s : Slice} (h : Own P n0 T s) (hsub : ∀ x ∈ T, x ∈ T') : Own P n0 T' s := by
  rcases h with h | ⟨j, hj, hp⟩
  · exact Or.inl h
  · exact Or.inr ⟨j, hsub j hj, hp⟩

theorem envOk_upd {P n0 f env} (henv : EnvOk P n0 f env) (x : Nat) (v : Val)
    (hv : ∀ s ∈ v, Own P n0 (tagOf f x) s) : EnvOk P n0 f (upd env x v) := by
  intro r s hs
  unfold upd at hs
  split at hs
  · rename_i h; subst h; exact hv s hs
  · exact henv r s hs

theorem capOk_upd {f env} (hcap : CapOk f env) (x : Nat) (v : Val)
    (hx : f.cappedRegs.contains x = false) : CapOk f (upd env x v) := by
  intro r hr s hs
  unfold upd at hs
  split at hs
  · rename_i h; subst h; rw [hx] at hr; cases hr
  · exact hcap r hr s hs

theorem capOk_upd_capped {f env} (hcap : CapOk f env) (x : Nat) (v : Val)
    (hv : ∀ s ∈ v, s.cap = s.len) : CapOk f (upd env x v) := by
  intro r hr s hs
  unfold upd at hs
  split at hs
  · exact hv s hs
  · exact hcap r hr s hs

theorem mem_flatMap_env {env : Env} {ys : List Nat} {t : Slice} (h : t ∈ ys.flatMap env) :
    ∃ y ∈ ys, t ∈ env y := by
  rw [List.mem_flatMap] at h; exact h

/-- what one simple statement may do -/
structure StepOk (P : Nat → Nat → Prop) (n0 : Nat) (f : FuncIR) (h : Heap) (r : Heap × Env) : Prop where
  len : h.length ≤ r.1.length
  frame : ∀ a, a < n0 → (∀ j ∈ f.touches, ¬ P j a) → r.1[a]? = h[a]?
  env : EnvOk P n0 f r.2
  cap : CapOk f r.2

theorem not_touched {P : Nat → Nat → Prop} {n0 : Nat} {f : FuncIR} {T : List Nat} {t : Slice}
    (hown : Own P n0 T t) (hsub : subset T f.touches = true) (a : Nat) (ha : a < n0)
    (hnt : ∀ j ∈ f.touches, ¬ P j a) : a ≠ t.arr := by
  intro heq
  rcases hown with h | ⟨j, hj, hp⟩
  · omega
  · exact hnt j (subset_mem hsub j hj) (heq ▸ hp)

theorem stepSimple_ok (prog : List FuncIR) (P : Nat → Nat → Prop) (n0 : Nat) (f : FuncIR) (st : Stmt)
    (ns : List Nat) (bs : List UInt8) (h : Heap) (env : Env)
    (hok : stmtOk prog f st = true) (hn0 : n0 ≤ h.length) (henv : EnvOk P n0 f env) (hcap : CapOk f env) :
    StepOk P n0 f h (stepSimple st ns bs h env) := by
  cases st with
  | alloc x =>
    simp only [stmtOk, Bool.not_eq_true'] at hok
    simp only [stepSimple]
    refine ⟨by simp, ?_, ?_, ?_⟩
    · intro a ha _
      rw [List.getElem?_append_left (by omega)]
    · apply envOk_upd henv
      intro s hs
      simp only [List.mem_singleton] at hs
      subst hs; exact Or.inl hn0
    · exact capOk_upd hcap _ _ hok
  | derive x ys =>
    simp only [stmtOk, Bool.and_eq_true, Bool.not_eq_true', List.all_eq_true] at hok
    simp only [stepSimple]
    refine ⟨Nat.le_refl _, fun _ _ _ => rfl, ?_, capOk_upd hcap _ _ hok.1⟩
    apply envOk_upd henv
    intro s hs
    obtain ⟨t, ht, harr⟩ := picks_mem subWindow _ (fun t s => s.arr = t.arr)
      (fun t lo hi s hh => (subWindow_spec t lo hi s hh).1) ns s hs
    obtain ⟨y, hy, hty⟩ := mem_flatMap_env ht
    have := henv y t hty
    unfold Own at this ⊢
    rw [harr]
    exact Own.mono this (subset_mem (hok.2 y hy))
  | capped x y =>
    simp only [stmtOk] at hok
    simp only [stepSimple]
    refine ⟨Nat.le_refl _, fun _ _ _ => rfl, ?_, ?_⟩
    · apply envOk_upd henv
      intro s hs
      obtain ⟨t, ht, harr⟩ := picks_mem subCapped _ (fun t s => s.arr = t.arr)
        (fun t lo hi s hh => (subCapped_spec t lo hi s hh).1) ns s hs
      have := henv y t ht
      unfold Own at this ⊢
      rw [harr]
      exact Own.mono this (subset_mem hok)
    · apply capOk_upd_capped hcap
      intro s hs
      obtain ⟨t, _, hc⟩ := picks_mem subCapped _ (fun _ s => s.cap = s.len)
        (fun t lo hi s hh => (subCapped_spec t lo hi s hh).2.1) ns s hs
      exact hc
  | beyond x y =>
    simp only [stmtOk, Bool.and_eq_true, Bool.not_eq_true'] at hok
    simp only [stepSimple]
    refine ⟨Nat.le_refl _, fun _ _ _ => rfl, ?_, capOk_upd hcap _ _ hok.1.1⟩
    apply envOk_upd henv
    intro s hs
    obtain ⟨t, ht, harr⟩ := picks_mem subBeyond _ (fun t s => s.arr = t.arr)
      (fun t lo hi s hh => subBeyond_spec t lo hi s hh) ns s hs
    have := henv y t ht
    unfold Own at this ⊢
    rw [harr]
    exact Own.mono this (subset_mem hok.1.2)
  | append x y =>
    simp only [stmtOk, Bool.and_eq_true, Bool.not_eq_true', Bool.or_eq_true] at hok
    obtain ⟨⟨hxc, hsub⟩, hwr⟩ := hok
    simp only [stepSimple]
    split
    · exact ⟨Nat.le_refl _, fun _ _ _ => rfl, henv, hcap⟩
    · rename_i t ht
      have htmem : t ∈ env y := List.mem_of_getElem? ht
      have hown := henv y t htmem
      refine ⟨goAppend_length h t bs, ?_, ?_, capOk_upd hcap _ _ hxc⟩
      · intro a ha hnt
        have halt : a < h.length := by omega
        rcases hwr with hc | htouch
        · exact goAppend_capped h t bs (hcap y hc t htmem) a halt
        · exact goAppend_other h t bs a halt (not_touched hown htouch a ha hnt)
      · apply envOk_upd henv
        intro s hs
        simp only [List.mem_singleton] at hs
        subst hs
        rcases goAppend_arr h t bs with heq | hge
        · unfold Own; rw [heq]; exact Own.mono hown (subset_mem hsub)
        · exact Or.inl (by omega)
  | store x =>
    simp only [stmtOk] at hok
    simp only [stepSimple]
    split
    · exact ⟨Nat.le_refl _, fun _ _ _ => rfl, henv, hcap⟩
    · rename_i t ht
      have hown := henv x t (List.mem_of_getElem? ht)
      refine ⟨by rw [goStore_length]; exact Nat.le_refl _, ?_, henv, hcap⟩
      intro a ha hnt
      exact goStore_other h t _ _ a (not_touched hown hok a ha hnt)
  | copyInto x =>
    simp only [stmtOk] at hok
    simp only [stepSimple]
    split
    · exact ⟨Nat.le_refl _, fun _ _ _ => rfl, henv, hcap⟩
    · rename_i t ht
      have hown := henv x t (List.mem_of_getElem? ht)
      refine ⟨by rw [goCopy_length]; exact Nat.le_refl _, ?_, henv, hcap⟩
      intro a ha hnt
      exact goCopy_other h t _ a (not_touched hown hok a ha hnt)
  | havoc xs =>
    simp only [stmtOk, List.all_eq_true] at hok
    simp only [stepSimple]
    split
    · exact ⟨Nat.le_refl _, fun _ _ _ => rfl, henv, hcap⟩
    · rename_i t ht
      obtain ⟨x, hx, htx⟩ := mem_flatMap_env (List.mem_of_getElem? ht)
      have hown := henv x t htx
      split
      · refine ⟨by rw [writeAt_length]; exact Nat.le_refl _, ?_, henv, hcap⟩
        intro a ha hnt
        exact writeAt_other h _ _ _ a (not_touched hown (hok x hx) a ha hnt)
      · exact ⟨Nat.le_refl _, fun _ _ _ => rfl, henv, hcap⟩
  | call xd xc g args =>
    simp only [stepSimple]
    exact ⟨Nat.le_refl _, fun _ _ _ => rfl, henv, hcap⟩
  | ret ds cs =>
    simp only [stepSimple]
    exact ⟨Nat.le_refl _, fun _ _ _ => rfl, henv, hcap⟩

end BtcVerif.Proofs.SliceHeap
