/-
C18 — soundness of the ownership checker.  If every function of a program is consistent with its tags
and summary (`bodyOk`), then for every execution (every trace, every heap, every argument layout):

* **frame**: an array that existed at the call changes only if it is addressed by a parameter listed in
  the function's `touches` summary;
* **windows**: every slice the function ever holds (and every slice it returns) lies in memory allocated
  during the call, or — for a parameter that is not in `touches` — inside the *visible window* of one of
  that parameter's slices: the function never addresses spare capacity or neighbouring bytes of such an
  argument.
-/
import BtcVerif.Proofs.SliceHeap

namespace BtcVerif.Proofs.SliceHeap
open BtcVerif.Model.SliceHeap

/-- array `a` is addressed (anywhere: visible window or spare capacity) by argument register `j` -/
def Addresses (args : Env) (j a : Nat) : Prop := ∃ s ∈ args j, s.arr = a

/-- what a slice tagged with parameter `j` may be: anywhere in the arrays of `j` if the function's
summary says it touches `j`; otherwise inside the visible window of one of `j`'s slices -/
def W (f : FuncIR) (args : Env) (j : Nat) (s : Slice) : Prop :=
  (j ∈ f.touches ∧ ∃ t ∈ args j, s.arr = t.arr) ∨ (∃ t ∈ args j, Within s t)

theorem W.addr {f args j s} (h : W f args j s) : Addresses args j s.arr := by
  rcases h with ⟨_, t, ht, he⟩ | ⟨t, ht, hw⟩
  · exact ⟨t, ht, he.symm⟩
  · exact ⟨t, ht, hw.1.symm⟩

theorem W.sub {f args j s t} (h : W f args j t) (hw : Within s t) : W f args j s := by
  rcases h with ⟨hj, u, hu, he⟩ | ⟨u, hu, hwu⟩
  · exact Or.inl ⟨hj, u, hu, hw.1.trans he⟩
  · exact Or.inr ⟨u, hu, hw.trans hwu⟩

theorem W.touched {f args j s t} (h : W f args j t) (hj : j ∈ f.touches) (he : s.arr = t.arr) :
    W f args j s := by
  obtain ⟨u, hu, hue⟩ := h.addr
  exact Or.inl ⟨hj, u, hu, he.trans hue.symm⟩

/-- `s` lives in memory allocated after the call (`n0 ≤ arr`) or is a permitted view of a parameter in `T` -/
def Own (f : FuncIR) (args : Env) (n0 : Nat) (T : List Nat) (s : Slice) : Prop :=
  n0 ≤ s.arr ∨ ∃ j ∈ T, W f args j s

/-- every register respects its tag -/
def EnvOk (f : FuncIR) (args : Env) (n0 : Nat) (env : Env) : Prop :=
  ∀ r s, s ∈ env r → Own f args n0 (tagOf f r) s

/-- registers declared capped hold only slices with `cap = len` -/
def CapOk (f : FuncIR) (env : Env) : Prop :=
  ∀ r, f.cappedRegs.contains r = true → ∀ s, s ∈ env r → s.cap = s.len

theorem Own.mono {f args n0 T T'} {s : Slice} (h : Own f args n0 T s) (hsub : ∀ x ∈ T, x ∈ T') :
    Own f args n0 T' s := by
  rcases h with h | ⟨j, hj, hp⟩
  · exact Or.inl h
  · exact Or.inr ⟨j, hsub j hj, hp⟩

theorem Own.sub {f args n0 T} {s t : Slice} (h : Own f args n0 T t) (hw : Within s t) : Own f args n0 T s := by
  rcases h with h | ⟨j, hj, hp⟩
  · exact Or.inl (by rw [hw.1]; exact h)
  · exact Or.inr ⟨j, hj, hp.sub hw⟩

theorem Own.touched {f args n0 T} {s t : Slice} (h : Own f args n0 T t) (hsub : subset T f.touches = true)
    (he : s.arr = t.arr) : Own f args n0 T s := by
  rcases h with h | ⟨j, hj, hp⟩
  · exact Or.inl (by rw [he]; exact h)
  · exact Or.inr ⟨j, hj, hp.touched (subset_mem hsub j hj) he⟩

theorem envOk_upd {f args n0 env} (henv : EnvOk f args n0 env) (x : Nat) (v : Val)
    (hv : ∀ s ∈ v, Own f args n0 (tagOf f x) s) : EnvOk f args n0 (upd env x v) := by
  intro r s hs
  unfold upd at hs
  split at hs
  · rename_i h; subst h; exact hv s hs
  · exact henv r s hs

theorem capOk_upd {f env} (hcap : CapOk f env) (x : Nat) (v : Val)
    (hx : f.cappedRegs.contains x = false) : CapOk f (upd env x v) := by
  intro r hr s hs
  unfold upd at hs
  split at hs
  · rename_i h; subst h; rw [hx] at hr; cases hr
  · exact hcap r hr s hs

theorem capOk_upd_capped {f env} (hcap : CapOk f env) (x : Nat) (v : Val)
    (hv : ∀ s ∈ v, s.cap = s.len) : CapOk f (upd env x v) := by
  intro r hr s hs
  unfold upd at hs
  split at hs
  · exact hv s hs
  · exact hcap r hr s hs

theorem mem_flatMap_env {env : Env} {ys : List Nat} {t : Slice} (h : t ∈ ys.flatMap env) :
    ∃ y ∈ ys, t ∈ env y := by
  rw [List.mem_flatMap] at h; exact h

/-- what one simple statement may do -/
structure StepOk (f : FuncIR) (args : Env) (n0 : Nat) (h : Heap) (r : Heap × Env) : Prop where
  len : h.length ≤ r.1.length
  frame : ∀ a, a < n0 → (∀ j ∈ f.touches, ¬ Addresses args j a) → r.1[a]? = h[a]?
  env : EnvOk f args n0 r.2
  cap : CapOk f r.2

theorem not_touched {f : FuncIR} {args : Env} {n0 : Nat} {T : List Nat} {t : Slice}
    (hown : Own f args n0 T t) (hsub : subset T f.touches = true) (a : Nat) (ha : a < n0)
    (hnt : ∀ j ∈ f.touches, ¬ Addresses args j a) : a ≠ t.arr := by
  intro heq
  rcases hown with h | ⟨j, hj, hp⟩
  · omega
  · exact hnt j (subset_mem hsub j hj) (heq ▸ hp.addr)

theorem stepSimple_ok (prog : List FuncIR) (args : Env) (n0 : Nat) (f : FuncIR) (st : Stmt)
    (ns : List Nat) (bs : List UInt8) (h : Heap) (env : Env)
    (hok : stmtOk prog f st = true) (hn0 : n0 ≤ h.length) (henv : EnvOk f args n0 env) (hcap : CapOk f env) :
    StepOk f args n0 h (stepSimple st ns bs h env) := by
  cases st with
  | alloc x =>
    simp only [stmtOk, Bool.not_eq_true'] at hok
    simp only [stepSimple]
    refine ⟨by simp, ?_, ?_, ?_⟩
    · intro a ha _
      rw [List.getElem?_append_left (by omega)]
    · apply envOk_upd henv
      intro s hs
      simp only [List.mem_singleton] at hs
      subst hs; exact Or.inl hn0
    · exact capOk_upd hcap _ _ hok
  | derive x ys =>
    simp only [stmtOk, Bool.and_eq_true, Bool.not_eq_true', List.all_eq_true] at hok
    simp only [stepSimple]
    refine ⟨Nat.le_refl _, fun _ _ _ => rfl, ?_, capOk_upd hcap _ _ hok.1⟩
    apply envOk_upd henv
    intro s hs
    obtain ⟨t, ht, hw⟩ := picks_mem subWindow _ (fun t s => Within s t)
      (fun t lo hi s hh => subWindow_within t lo hi s hh) ns s hs
    obtain ⟨y, hy, hty⟩ := mem_flatMap_env ht
    exact ((henv y t hty).sub hw).mono (subset_mem (hok.2 y hy))
  | capped x y =>
    simp only [stmtOk] at hok
    simp only [stepSimple]
    refine ⟨Nat.le_refl _, fun _ _ _ => rfl, ?_, ?_⟩
    · apply envOk_upd henv
      intro s hs
      obtain ⟨t, ht, hw⟩ := picks_mem subCapped _ (fun t s => Within s t)
        (fun t lo hi s hh => subCapped_within t lo hi s hh) ns s hs
      exact ((henv y t ht).sub hw).mono (subset_mem hok)
    · apply capOk_upd_capped hcap
      intro s hs
      obtain ⟨t, _, hc⟩ := picks_mem subCapped _ (fun _ s => s.cap = s.len)
        (fun t lo hi s hh => (subCapped_spec t lo hi s hh).2.1) ns s hs
      exact hc
  | beyond x y =>
    simp only [stmtOk, Bool.and_eq_true, Bool.not_eq_true'] at hok
    simp only [stepSimple]
    refine ⟨Nat.le_refl _, fun _ _ _ => rfl, ?_, capOk_upd hcap _ _ hok.1.1⟩
    apply envOk_upd henv
    intro s hs
    obtain ⟨t, ht, harr⟩ := picks_mem subBeyond _ (fun t s => s.arr = t.arr)
      (fun t lo hi s hh => subBeyond_spec t lo hi s hh) ns s hs
    exact ((henv y t ht).touched hok.2 harr).mono (subset_mem hok.1.2)
  | append x y =>
    simp only [stmtOk, Bool.and_eq_true, Bool.not_eq_true', Bool.or_eq_true] at hok
    obtain ⟨⟨hxc, hsub⟩, hwr⟩ := hok
    simp only [stepSimple]
    split
    · exact ⟨Nat.le_refl _, fun _ _ _ => rfl, henv, hcap⟩
    · rename_i t ht
      have htmem : t ∈ env y := List.mem_of_getElem? ht
      have hown := henv y t htmem
      refine ⟨goAppend_length h t bs, ?_, ?_, capOk_upd hcap _ _ hxc⟩
      · intro a ha hnt
        have halt : a < h.length := by omega
        rcases hwr with hc | htouch
        · exact goAppend_capped h t bs (hcap y hc t htmem) a halt
        · exact goAppend_other h t bs a halt (not_touched hown htouch a ha hnt)
      · apply envOk_upd henv
        intro s hs
        simp only [List.mem_singleton] at hs
        subst hs
        rcases goAppend_res h t bs with ⟨heq, hle⟩ | hge
        · rw [heq]
          rcases hwr with hc | htouch
          · -- capped: in place only when nothing is appended — the same slice
            have hcl := hcap y hc t htmem
            have : bs.length = 0 := by omega
            have hsame : ({ t with len := t.len + bs.length } : Slice) = t := by
              rw [this]; cases t; rfl
            rw [hsame]
            exact hown.mono (subset_mem hsub)
          · exact (hown.touched (s := { t with len := t.len + bs.length }) htouch rfl).mono (subset_mem hsub)
        · exact Or.inl (by omega)
  | store x =>
    simp only [stmtOk] at hok
    simp only [stepSimple]
    split
    · exact ⟨Nat.le_refl _, fun _ _ _ => rfl, henv, hcap⟩
    · rename_i t ht
      have hown := henv x t (List.mem_of_getElem? ht)
      refine ⟨by rw [goStore_length]; exact Nat.le_refl _, ?_, henv, hcap⟩
      intro a ha hnt
      exact goStore_other h t _ _ a (not_touched hown hok a ha hnt)
  | copyInto x =>
    simp only [stmtOk] at hok
    simp only [stepSimple]
    split
    · exact ⟨Nat.le_refl _, fun _ _ _ => rfl, henv, hcap⟩
    · rename_i t ht
      have hown := henv x t (List.mem_of_getElem? ht)
      refine ⟨by rw [goCopy_length]; exact Nat.le_refl _, ?_, henv, hcap⟩
      intro a ha hnt
      exact goCopy_other h t _ a (not_touched hown hok a ha hnt)
  | havoc xs =>
    simp only [stmtOk, List.all_eq_true] at hok
    simp only [stepSimple]
    split
    · exact ⟨Nat.le_refl _, fun _ _ _ => rfl, henv, hcap⟩
    · rename_i t ht
      obtain ⟨x, hx, htx⟩ := mem_flatMap_env (List.mem_of_getElem? ht)
      have hown := henv x t htx
      split
      · refine ⟨by rw [writeAt_length]; exact Nat.le_refl _, ?_, henv, hcap⟩
        intro a ha hnt
        exact writeAt_other h _ _ _ a (not_touched hown (hok x hx) a ha hnt)
      · exact ⟨Nat.le_refl _, fun _ _ _ => rfl, henv, hcap⟩
  | call xd xc g args =>
    simp only [stepSimple]
    exact ⟨Nat.le_refl _, fun _ _ _ => rfl, henv, hcap⟩
  | ret ds cs =>
    simp only [stepSimple]
    exact ⟨Nat.le_refl _, fun _ _ _ => rfl, henv, hcap⟩

/-- what a whole execution may do -/
structure RunOk (f : FuncIR) (args : Env) (n0 : Nat) (h : Heap) (r : Heap × Val × Val × Env) : Prop where
  len : h.length ≤ r.1.length
  frame : ∀ a, a < n0 → (∀ j ∈ f.touches, ¬ Addresses args j a) → r.1[a]? = h[a]?
  retD : ∀ s ∈ r.2.1, Own f args n0 f.retD s
  retC : ∀ s ∈ r.2.2.1, Own f args n0 f.retC s
  env : EnvOk f args n0 r.2.2.2

theorem bodyOk_stmt {prog : List FuncIR} {f : FuncIR} (hb : bodyOk prog f = true) {idx : Nat} {st : Stmt}
    (hst : f.body[idx]? = some st) : stmtOk prog f st = true := by
  unfold bodyOk at hb
  simp only [Bool.and_eq_true, List.all_eq_true] at hb
  exact hb.2 st (List.mem_of_getElem? hst)

theorem bodyOk_params {prog : List FuncIR} {f : FuncIR} (hb : bodyOk prog f = true) {r : Nat}
    (hr : f.tracked.contains r = true) : r ∈ tagOf f r ∧ f.cappedRegs.contains r = false := by
  unfold bodyOk paramsOk at hb
  simp only [Bool.and_eq_true, List.all_eq_true, Bool.not_eq_true'] at hb
  have hmem : r ∈ f.tracked := by simpa using hr
  have := hb.1 r hmem
  exact ⟨by simpa using this.1, this.2⟩

theorem argEnv_mem {tracked : List Nat} {env : Env} {args : List Nat} {j : Nat} {s : Slice}
    (h : s ∈ argEnv tracked env args j) :
    tracked.contains j = true ∧ ∃ a, args[j]? = some a ∧ s ∈ env a := by
  unfold argEnv at h
  split at h
  · rename_i ht
    split at h
    · rename_i a ha; exact ⟨ht, a, ha, h⟩
    · cases h
  · cases h

/-- the initial registers of a function respect its tags: a tracked parameter holds its own argument -/
theorem envOk_init {prog : List FuncIR} {f : FuncIR} (hb : bodyOk prog f = true) (args : Env) (n0 : Nat)
    (hargs : ∀ r s, s ∈ args r → f.tracked.contains r = true) : EnvOk f args n0 args := by
  intro r s hs
  exact Or.inr ⟨r, (bodyOk_params hb (hargs r s hs)).1, Or.inr ⟨s, hs, Within.refl s⟩⟩

theorem capOk_init {prog : List FuncIR} {f : FuncIR} (hb : bodyOk prog f = true) (args : Env)
    (hargs : ∀ r s, s ∈ args r → f.tracked.contains r = true) : CapOk f args := by
  intro r hr s hs
  rw [(bodyOk_params hb (hargs r s hs)).2] at hr; cases hr

/-- **Soundness, general form.**  In a program all of whose functions are consistent (`bodyOk`), every
execution of a function `f` whose registers initially hold its argument memory `args` (and respect its
tags) leaves every array below `n0` unchanged unless it is addressed by a parameter in `f.touches`; the
results and all registers stay within new memory and the permitted views of the parameters their tags
name. -/
theorem run_ok (prog : List FuncIR) (hprog : ∀ g ∈ prog, bodyOk prog g = true) :
    ∀ (t : Trace) (f : FuncIR) (h : Heap) (env : Env) (args : Env) (n0 : Nat),
      f ∈ prog → n0 ≤ h.length → EnvOk f args n0 env → CapOk f env →
      RunOk f args n0 h (run prog t f h env) := by
  intro t
  induction t with
  | done =>
    intro f h env args n0 _ _ henv _
    simp only [run]
    exact ⟨Nat.le_refl _, fun _ _ _ => rfl, (fun _ hs => by cases hs), (fun _ hs => by cases hs), henv⟩
  | ev idx ns bs sub rest ihsub ihrest =>
    intro f h env args n0 hf hn0 henv hcap
    have hb := hprog f hf
    simp only [run]
    split
    · -- no such statement
      exact ihrest f h env args n0 hf hn0 henv hcap
    · -- ret
      rename_i ds cs hst
      have hok := bodyOk_stmt hb hst
      simp only [stmtOk, Bool.and_eq_true, List.all_eq_true] at hok
      refine ⟨Nat.le_refl _, fun _ _ _ => rfl, ?_, ?_, henv⟩
      · intro s hs
        obtain ⟨x, hx, hsx⟩ := mem_flatMap_env hs
        exact (henv x s hsx).mono (subset_mem (hok.1 x hx))
      · intro s hs
        obtain ⟨x, hx, hsx⟩ := mem_flatMap_env hs
        exact (henv x s hsx).mono (subset_mem (hok.2 x hx))
    · -- call
      rename_i xd xc g cargs hst
      have hok := bodyOk_stmt hb hst
      split
      · exact ihrest f h env args n0 hf hn0 henv hcap
      · rename_i gf hg
        have hgf : gf ∈ prog := List.mem_of_getElem? hg
        have hgb := hprog gf hgf
        simp only [stmtOk, hg, Bool.and_eq_true, Bool.not_eq_true', List.all_eq_true] at hok
        obtain ⟨⟨⟨⟨⟨hxdc, hxcc⟩, _⟩, htouch⟩, hretD⟩, hretC⟩ := hok
        have hinit : ∀ r s, s ∈ argEnv gf.tracked env cargs r → gf.tracked.contains r = true :=
          fun r s hs => (argEnv_mem hs).1
        -- the callee's run
        have hsubOk := ihsub gf h (argEnv gf.tracked env cargs) (argEnv gf.tracked env cargs) h.length hgf
          (Nat.le_refl _) (envOk_init hgb _ _ hinit) (capOk_init hgb _ hinit)
        -- a permitted view of the callee's parameter j is a permitted view of the caller's args[j]
        have hres : ∀ (T : List Nat) (x : Nat) (s : Slice),
            (∀ j ∈ T, match cargs[j]? with
              | some a => subset (tagOf f a) (tagOf f x) = true | none => True) →
            Own gf (argEnv gf.tracked env cargs) h.length T s → Own f args n0 (tagOf f x) s := by
          intro T x s hT hown
          rcases hown with hge | ⟨j, hj, hw⟩
          · exact Or.inl (by omega)
          · have hTj := hT j hj
            rcases hw with ⟨hjt, t', ht', he⟩ | ⟨t', ht', hwin⟩
            · obtain ⟨_, ar, har, htar⟩ := argEnv_mem ht'
              rw [har] at hTj
              have hto := htouch j hjt
              rw [har] at hto
              exact ((henv ar t' htar).touched hto he).mono (subset_mem hTj)
            · obtain ⟨_, ar, har, htar⟩ := argEnv_mem ht'
              rw [har] at hTj
              exact ((henv ar t' htar).sub hwin).mono (subset_mem hTj)
        have hrestOk := ihrest f (run prog sub gf h (argEnv gf.tracked env cargs)).1
          (upd (upd env xd (run prog sub gf h (argEnv gf.tracked env cargs)).2.1) xc
            (run prog sub gf h (argEnv gf.tracked env cargs)).2.2.1) args n0 hf
          (Nat.le_trans hn0 hsubOk.len)
          (by
            apply envOk_upd
            · apply envOk_upd henv
              intro s hs
              exact hres gf.retD xd s (fun j hj => by
                have := hretD j hj
                split <;> simp_all) (hsubOk.retD s hs)
            · intro s hs
              exact hres gf.retC xc s (fun j hj => by
                have := hretC j hj
                split <;> simp_all) (hsubOk.retC s hs))
          (capOk_upd (capOk_upd hcap _ _ hxdc) _ _ hxcc)
        refine ⟨Nat.le_trans hsubOk.len hrestOk.len, ?_, hrestOk.retD, hrestOk.retC, hrestOk.env⟩
        intro a ha hnt
        rw [hrestOk.frame a ha hnt]
        apply hsubOk.frame a (by omega)
        intro j hj ⟨t', ht', hta⟩
        obtain ⟨_, ar, har, htar⟩ := argEnv_mem ht'
        have hsub := htouch j hj
        rw [har] at hsub
        exact not_touched (henv ar t' htar) hsub a ha hnt hta.symm
    · -- a simple statement
      rename_i st _ _ hst
      have hok := bodyOk_stmt hb hst
      have hs := stepSimple_ok prog args n0 f st ns bs h env hok hn0 henv hcap
      have hr := ihrest f (stepSimple st ns bs h env).1 (stepSimple st ns bs h env).2 args n0 hf
        (Nat.le_trans hn0 hs.len) hs.env hs.cap
      refine ⟨Nat.le_trans hs.len hr.len, ?_, hr.retD, hr.retC, hr.env⟩
      intro a ha hnt
      rw [hr.frame a ha hnt, hs.frame a ha hnt]

/-- the argument memory a call of `f` sees: untracked parameters are projected away -/
def visibleArgs (f : FuncIR) (args : Env) : Env := fun r => if f.tracked.contains r then args r else []

theorem runFn_ok (prog : List FuncIR) (hprog : prog.all (bodyOk prog) = true) (f : FuncIR) (hf : f ∈ prog)
    (t : Trace) (h : Heap) (args : Env) :
    RunOk f (visibleArgs f args) h.length h (runFn prog f t h args) := by
  have hp : ∀ g ∈ prog, bodyOk prog g = true := by
    intro g hg; rw [List.all_eq_true] at hprog; exact hprog g hg
  have hinit : ∀ r s, s ∈ visibleArgs f args r → f.tracked.contains r = true := by
    intro r s hs
    unfold visibleArgs at hs
    split at hs
    · assumption
    · cases hs
  exact run_ok prog hp t f h (visibleArgs f args) (visibleArgs f args) h.length hf (Nat.le_refl _)
    (envOk_init (hp f hf) _ _ hinit) (capOk_init (hp f hf) _ hinit)

theorem addresses_visible {f : FuncIR} {args : Env} {j a : Nat} (h : Addresses (visibleArgs f args) j a) :
    Addresses args j a := by
  obtain ⟨s, hs, he⟩ := h
  unfold visibleArgs at hs
  split at hs
  · exact ⟨s, hs, he⟩
  · cases hs

/-- **Soundness of the checker (frame).**  In a consistent program, a call of `f` — with any trace
(every order and repetition of its statements and of its callees' statements, every dynamic value),
from any heap, with its arguments anywhere in that heap (any offsets, lengths, capacities, overlaps) —
leaves every array that existed at the call unchanged, *whole array*: visible windows, spare capacity
and everything around them, unless the array is addressed by a parameter in `f.touches`. -/
theorem runFn_frame (prog : List FuncIR) (hprog : prog.all (bodyOk prog) = true) (f : FuncIR) (hf : f ∈ prog)
    (t : Trace) (h : Heap) (args : Env) (a : Nat) (ha : a < h.length)
    (hnt : ∀ j ∈ f.touches, ¬ Addresses args j a) :
    (runFn prog f t h args).1[a]? = h[a]? :=
  (runFn_ok prog hprog f hf t h args).frame a ha (fun j hj hv => hnt j hj (addresses_visible hv))

/-- for a function whose summary touches nothing, every existing array is unchanged -/
theorem runFn_frame_all (prog : List FuncIR) (hprog : prog.all (bodyOk prog) = true) (f : FuncIR) (hf : f ∈ prog)
    (hto : f.touches = []) (t : Trace) (h : Heap) (args : Env) (a : Nat) (ha : a < h.length) :
    (runFn prog f t h args).1[a]? = h[a]? :=
  runFn_frame prog hprog f hf t h args a ha (by rw [hto]; intro j hj; cases hj)

/-- an exported function that passes `check` touches none of its caller-owned byte-slice parameters -/
theorem check_guarded (prog : List FuncIR) (f : FuncIR) (hc : check prog f = true) (hapi : f.api = true) :
    ∀ j ∈ f.guarded, j ∉ f.touches := by
  unfold check at hc
  simp only [Bool.and_eq_true, Bool.or_eq_true, Bool.not_eq_true', List.all_eq_true] at hc
  intro j hj hjt
  rcases hc.2 with h | h
  · rw [hapi] at h; cases h
  · have := h j hj
    simp at this
    exact this hjt

/-- a slice is in new memory, or inside the visible window of a slice of one of the parameters in `T` -/
def InWindows (args : Env) (n0 : Nat) (T : List Nat) (s : Slice) : Prop :=
  n0 ≤ s.arr ∨ ∃ j ∈ T, ∃ t ∈ args j, Within s t

theorem own_inWindows {f : FuncIR} {args : Env} {n0 : Nat} {T : List Nat} {s : Slice}
    (hto : f.touches = []) (h : Own f (visibleArgs f args) n0 T s) : InWindows args n0 T s := by
  rcases h with h | ⟨j, hj, hw⟩
  · exact Or.inl h
  · rcases hw with ⟨hjt, _⟩ | ⟨t, ht, hwin⟩
    · rw [hto] at hjt; cases hjt
    · refine Or.inr ⟨j, hj, t, ?_, hwin⟩
      unfold visibleArgs at ht
      split at ht
      · exact ht
      · cases ht

/-- **Soundness of the checker (windows).**  A function whose summary touches nothing never holds — in
any register, at the end of any trace, hence at any point of any execution — and never returns a slice
of a caller's array that is not inside the visible window `[off, off+len)` of one of the argument
slices its tag names. -/
theorem runFn_windows (prog : List FuncIR) (hprog : prog.all (bodyOk prog) = true) (f : FuncIR) (hf : f ∈ prog)
    (hto : f.touches = []) (t : Trace) (h : Heap) (args : Env) :
    (∀ r s, s ∈ (runFn prog f t h args).2.2.2 r → InWindows args h.length (tagOf f r) s) ∧
    (∀ s ∈ (runFn prog f t h args).2.1, InWindows args h.length f.retD s) ∧
    (∀ s ∈ (runFn prog f t h args).2.2.1, InWindows args h.length f.retC s) := by
  have hok := runFn_ok prog hprog f hf t h args
  exact ⟨fun r s hs => own_inWindows hto (hok.env r s hs),
    fun s hs => own_inWindows hto (hok.retD s hs), fun s hs => own_inWindows hto (hok.retC s hs)⟩

/-- results live in new memory or in the arrays of the parameters the summary names -/
theorem runFn_results (prog : List FuncIR) (hprog : prog.all (bodyOk prog) = true) (f : FuncIR) (hf : f ∈ prog)
    (t : Trace) (h : Heap) (args : Env) :
    (∀ s ∈ (runFn prog f t h args).2.1, h.length ≤ s.arr ∨ ∃ j ∈ f.retD, Addresses args j s.arr) ∧
    (∀ s ∈ (runFn prog f t h args).2.2.1, h.length ≤ s.arr ∨ ∃ j ∈ f.retC, Addresses args j s.arr) := by
  have hok := runFn_ok prog hprog f hf t h args
  constructor
  · intro s hs
    rcases hok.retD s hs with h1 | ⟨j, hj, hw⟩
    · exact Or.inl h1
    · exact Or.inr ⟨j, hj, addresses_visible hw.addr⟩
  · intro s hs
    rcases hok.retC s hs with h1 | ⟨j, hj, hw⟩
    · exact Or.inl h1
    · exact Or.inr ⟨j, hj, addresses_visible hw.addr⟩

end BtcVerif.Proofs.SliceHeap
