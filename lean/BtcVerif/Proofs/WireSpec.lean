/-
  The modelled encoder produces exactly the strings of the reference grammar Spec/Wire.lean.
-/
import BtcVerif.Spec.Wire
import BtcVerif.Proofs.Tx
import BtcVerif.Proofs.Block

namespace BtcVerif.Proofs.WireSpec
open BtcVerif BtcVerif.Model BtcVerif.Parser BtcVerif.Spec.Wire
open BtcVerif.Gen.Guards

theorem LE_iff_leNat {k n : Nat} {bs : Bytes} : LE k n bs ↔ bs.length = k ∧ leNat bs = n := by
  constructor
  · intro h
    induction h with
    | zero => exact ⟨rfl, rfl⟩
    | succ b _ ih => exact And.intro (by simp [ih.1]) (by simp [leNat, ih.2])
  · intro ⟨hl, hn⟩
    induction bs generalizing k n with
    | nil => subst hl; subst hn; exact LE.zero
    | cons b bs ih =>
      subst hl; subst hn
      exact LE.succ b (ih rfl rfl)

theorem LE_iff {k n : Nat} {bs : Bytes} : LE k n bs ↔ n < 256 ^ k ∧ bs = leBytes k n := by
  rw [LE_iff_leNat]
  constructor
  · intro ⟨hl, hn⟩
    subst hl; subst hn
    exact ⟨leNat_lt bs, (leBytes_leNat bs).symm⟩
  · intro ⟨hlt, hbs⟩
    subst hbs
    exact ⟨leBytes_length k n, leNat_leBytes k n hlt⟩

theorem ofNat_toNat_u8 (b : UInt8) : UInt8.ofNat b.toNat = b := by simp

theorem encVarint_u8 {v : Nat} (h : v ≤ 252) : encVarint v = [UInt8.ofNat v] := by
  have h0 : ¬ v > 4294967295 := by omega
  have h1 : ¬ v > 65535 := by omega
  have h2 : ¬ v > 252 := by omega
  simp [encVarint, varint_VarInt_WriteTo_0, varint_VarInt_WriteTo_1, varint_VarInt_WriteTo_2, h0, h1, h2]

theorem encVarint_u16 {v : Nat} (h : 253 ≤ v) (h' : v ≤ 65535) : encVarint v = 0xfd :: leBytes 2 v := by
  have h0 : ¬ v > 4294967295 := by omega
  have h1 : ¬ v > 65535 := by omega
  have h2 : v > 252 := by omega
  simp [encVarint, varint_VarInt_WriteTo_0, varint_VarInt_WriteTo_1, varint_VarInt_WriteTo_2, h0, h1, h2]

theorem encVarint_u32 {v : Nat} (h : 65536 ≤ v) (h' : v ≤ 4294967295) : encVarint v = 0xfe :: leBytes 4 v := by
  have h0 : ¬ v > 4294967295 := by omega
  have h1 : v > 65535 := by omega
  simp [encVarint, varint_VarInt_WriteTo_0, varint_VarInt_WriteTo_1, h0, h1]

theorem encVarint_u64 {v : Nat} (h : 4294967296 ≤ v) : encVarint v = 0xff :: leBytes 8 v := by
  have h0 : v > 4294967295 := by omega
  simp [encVarint, varint_VarInt_WriteTo_0, h0]

theorem CompactSize_iff {v : Nat} {bs : Bytes} :
    CompactSize v bs ↔ v < 2 ^ 64 ∧ bs = encVarint v := by
  have p2 : (256:Nat)^2 = 65536 := by decide
  have p4 : (256:Nat)^4 = 4294967296 := by decide
  have p8 : (256:Nat)^8 = 2^64 := by decide
  constructor
  · intro h
    cases h with
    | u8 hv hb =>
      subst hb
      refine ⟨by omega, ?_⟩
      rw [encVarint_u8 (by omega)]; simp
    | u16 h1 h2 hle =>
      obtain ⟨_, rfl⟩ := LE_iff.mp hle
      exact ⟨by omega, (encVarint_u16 (by omega) (by omega)).symm⟩
    | u32 h1 h2 hle =>
      obtain ⟨_, rfl⟩ := LE_iff.mp hle
      exact ⟨by omega, (encVarint_u32 (by omega) (by omega)).symm⟩
    | u64 h1 hle =>
      obtain ⟨hlt, rfl⟩ := LE_iff.mp hle
      exact ⟨by omega, (encVarint_u64 (by omega)).symm⟩
  · intro ⟨hv, hbs⟩
    subst hbs
    by_cases h0 : v > 4294967295
    · rw [encVarint_u64 (by omega)]
      exact CompactSize.u64 (by omega) (LE_iff.mpr ⟨by omega, rfl⟩)
    · by_cases h1 : v > 65535
      · rw [encVarint_u32 (by omega) (by omega)]
        exact CompactSize.u32 (by omega) (by omega) (LE_iff.mpr ⟨by omega, rfl⟩)
      · by_cases h2 : v > 252
        · rw [encVarint_u16 (by omega) (by omega)]
          exact CompactSize.u16 (by omega) (by omega) (LE_iff.mpr ⟨by omega, rfl⟩)
        · rw [encVarint_u8 (by omega)]
          exact CompactSize.u8 (by omega) (u8_ofNat_toNat v (by omega))

theorem VarBytes_iff {s bs : Bytes} :
    VarBytes s bs ↔ s.length < 2 ^ 64 ∧ bs = encVarint s.length ++ s := by
  unfold VarBytes
  constructor
  · rintro ⟨l, hl, rfl⟩
    obtain ⟨h, rfl⟩ := CompactSize_iff.mp hl
    exact ⟨h, rfl⟩
  · rintro ⟨h, rfl⟩
    exact ⟨_, CompactSize_iff.mpr ⟨h, rfl⟩, rfl⟩

/-- a relation that coincides with a function on a domain: its concatenation coincides with `encMany` -/
theorem Concat_iff {α} {R : α → Bytes → Prop} {P : α → Prop} {f : α → Bytes}
    (hR : ∀ x bs, R x bs ↔ P x ∧ bs = f x) (xs : List α) (bs : Bytes) :
    Concat R xs bs ↔ (∀ x ∈ xs, P x) ∧ bs = encMany f xs := by
  induction xs generalizing bs with
  | nil =>
    constructor
    · intro h; cases h; exact ⟨by simp, rfl⟩
    · rintro ⟨_, rfl⟩; exact Concat.nil
  | cons x xs ih =>
    constructor
    · intro h
      cases h with
      | cons hx hxs =>
        obtain ⟨px, rfl⟩ := (hR _ _).mp hx
        obtain ⟨pxs, rfl⟩ := (ih _).mp hxs
        refine ⟨?_, by simp [encMany]⟩
        intro y hy
        cases hy with
        | head => exact px
        | tail _ h => exact pxs y h
    · rintro ⟨hp, rfl⟩
      have : encMany f (x :: xs) = f x ++ encMany f xs := by simp [encMany]
      rw [this]
      exact Concat.cons ((hR _ _).mpr ⟨hp x (by simp), rfl⟩)
        ((ih _).mpr ⟨fun y hy => hp y (by simp [hy]), rfl⟩)

theorem Vector_iff {α} {R : α → Bytes → Prop} {P : α → Prop} {f : α → Bytes}
    (hR : ∀ x bs, R x bs ↔ P x ∧ bs = f x) (xs : List α) (bs : Bytes) :
    Vector R xs bs ↔ xs.length < 2 ^ 64 ∧ (∀ x ∈ xs, P x) ∧ bs = encVarint xs.length ++ encMany f xs := by
  unfold Spec.Wire.Vector
  constructor
  · rintro ⟨l, body, hl, hb, rfl⟩
    obtain ⟨h, rfl⟩ := CompactSize_iff.mp hl
    obtain ⟨hp, rfl⟩ := (Concat_iff hR xs body).mp hb
    exact ⟨h, hp, rfl⟩
  · rintro ⟨h, hp, rfl⟩
    exact ⟨_, _, CompactSize_iff.mpr ⟨h, rfl⟩, (Concat_iff hR xs _).mpr ⟨hp, rfl⟩, rfl⟩

/-! value ranges the grammar forces (no library limit) -/
def RPrevOut (p : PrevOut) : Prop := p.hash.length = 32 ∧ p.index < 2 ^ 32
def RTxIn (i : TxIn) : Prop := RPrevOut i.prev ∧ i.script.length < 2 ^ 64 ∧ i.sequence < 2 ^ 32
def RTxOut (o : TxOut) : Prop := o.value < 2 ^ 64 ∧ o.script.length < 2 ^ 64
def RWitness (w : Witness) : Prop := w.length < 2 ^ 64 ∧ ∀ c ∈ w, c.length < 2 ^ 64

theorem IsOutPoint_iff (p : PrevOut) (bs : Bytes) : IsOutPoint p bs ↔ RPrevOut p ∧ bs = encPrevOut p := by
  unfold IsOutPoint RPrevOut encPrevOut
  constructor
  · rintro ⟨h, i, hi, rfl⟩
    obtain ⟨hlt, rfl⟩ := LE_iff.mp hi
    exact ⟨⟨h, by have := p32; omega⟩, rfl⟩
  · rintro ⟨⟨h, hi⟩, rfl⟩
    exact ⟨h, _, LE_iff.mpr ⟨by have := p32; omega, rfl⟩, rfl⟩

theorem IsTxIn_iff (i : TxIn) (bs : Bytes) : IsTxIn i bs ↔ RTxIn i ∧ bs = encTxIn i := by
  unfold IsTxIn RTxIn encTxIn
  constructor
  · rintro ⟨a, b, c, ha, hb, hc, rfl⟩
    obtain ⟨hp, rfl⟩ := (IsOutPoint_iff _ _).mp ha
    obtain ⟨hs, rfl⟩ := VarBytes_iff.mp hb
    obtain ⟨hq, rfl⟩ := LE_iff.mp hc
    exact ⟨⟨hp, hs, by have := p32; omega⟩, by simp [List.append_assoc]⟩
  · rintro ⟨⟨hp, hs, hq⟩, rfl⟩
    exact ⟨_, _, _, (IsOutPoint_iff _ _).mpr ⟨hp, rfl⟩, VarBytes_iff.mpr ⟨hs, rfl⟩,
      LE_iff.mpr ⟨by have := p32; omega, rfl⟩, by simp [List.append_assoc]⟩

theorem IsTxOut_iff (o : TxOut) (bs : Bytes) : IsTxOut o bs ↔ RTxOut o ∧ bs = encTxOut o := by
  unfold IsTxOut RTxOut encTxOut
  constructor
  · rintro ⟨a, b, ha, hb, rfl⟩
    obtain ⟨hv, rfl⟩ := LE_iff.mp ha
    obtain ⟨hs, rfl⟩ := VarBytes_iff.mp hb
    exact ⟨⟨by have := p64; omega, hs⟩, by simp [List.append_assoc]⟩
  · rintro ⟨⟨hv, hs⟩, rfl⟩
    exact ⟨_, _, LE_iff.mpr ⟨by have := p64; omega, rfl⟩, VarBytes_iff.mpr ⟨hs, rfl⟩, by simp [List.append_assoc]⟩

theorem VarBytes_iff' (s bs : Bytes) : VarBytes s bs ↔ s.length < 2 ^ 64 ∧ bs = encChunk s := by
  rw [VarBytes_iff]; rfl

theorem IsWitnessStack_iff (w : Witness) (bs : Bytes) :
    IsWitnessStack w bs ↔ RWitness w ∧ bs = encWitness w := by
  unfold IsWitnessStack RWitness
  rw [Vector_iff VarBytes_iff' w bs]
  unfold encWitness encMany
  constructor
  · rintro ⟨a, b, c⟩; exact ⟨⟨a, b⟩, c⟩
  · rintro ⟨⟨a, b⟩, c⟩; exact ⟨a, b, c⟩

/-- the value ranges of a whole transaction -/
def RTx (tx : Tx) : Prop :=
  tx.version < 2 ^ 32 ∧ tx.locktime < 2 ^ 32 ∧ tx.inputs.length < 2 ^ 64 ∧ tx.outputs.length < 2 ^ 64 ∧
  (∀ i ∈ tx.inputs, RTxIn i) ∧ (∀ o ∈ tx.outputs, RTxOut o) ∧
  (∀ ws, tx.witnesses = some ws → ws.length = tx.inputs.length ∧ ∀ w ∈ ws, RWitness w)

/-- the byte string the grammar assigns to a transaction, written with the model's encoders -/
def txBytes (tx : Tx) : Bytes :=
  leBytes 4 tx.version
    ++ (match tx.witnesses with | none => [] | some _ => [0x00, 0x01])
    ++ encVarint tx.inputs.length ++ encMany encTxIn tx.inputs
    ++ encVarint tx.outputs.length ++ encMany encTxOut tx.outputs
    ++ encMany encWitness (witList tx)
    ++ leBytes 4 tx.locktime

theorem IsTx_iff (tx : Tx) (bs : Bytes) : IsTx tx bs ↔ RTx tx ∧ bs = txBytes tx := by
  unfold IsTx RTx txBytes
  constructor
  · rintro ⟨v, ins, outs, lock, hv, hi, ho, hl, hw⟩
    obtain ⟨hv1, rfl⟩ := LE_iff.mp hv
    obtain ⟨hl1, rfl⟩ := LE_iff.mp hl
    obtain ⟨hi1, hi2, rfl⟩ := (Vector_iff IsTxIn_iff _ _).mp hi
    obtain ⟨ho1, ho2, rfl⟩ := (Vector_iff IsTxOut_iff _ _).mp ho
    cases hwit : tx.witnesses with
    | none =>
      rw [hwit] at hw
      subst hw
      refine ⟨⟨by have := p32; omega, by have := p32; omega, hi1, ho1, hi2, ho2, by simp⟩, ?_⟩
      simp [witList, hwit, encMany, List.append_assoc]
    | some ws =>
      rw [hwit] at hw
      obtain ⟨hlen, w, hw1, rfl⟩ := hw
      obtain ⟨hw2, rfl⟩ := (Concat_iff IsWitnessStack_iff ws w).mp hw1
      refine ⟨⟨by have := p32; omega, by have := p32; omega, hi1, ho1, hi2, ho2, ?_⟩, ?_⟩
      · intro ws' h; injection h with h; subst h; exact ⟨hlen, hw2⟩
      · simp [witList, hwit, List.append_assoc]
  · rintro ⟨⟨hv, hl, hi1, ho1, hi2, ho2, hw⟩, rfl⟩
    refine ⟨_, _, _, _, LE_iff.mpr ⟨by have := p32; omega, rfl⟩,
      (Vector_iff IsTxIn_iff _ _).mpr ⟨hi1, hi2, rfl⟩, (Vector_iff IsTxOut_iff _ _).mpr ⟨ho1, ho2, rfl⟩,
      LE_iff.mpr ⟨by have := p32; omega, rfl⟩, ?_⟩
    cases hwit : tx.witnesses with
    | none => simp [witList, hwit, encMany, List.append_assoc]
    | some ws =>
      obtain ⟨hlen, hws⟩ := hw ws hwit
      refine ⟨hlen, _, (Concat_iff IsWitnessStack_iff ws _).mpr ⟨hws, rfl⟩, ?_⟩
      simp [witList, hwit, List.append_assoc]

theorem le_sum_of_mem {n : Nat} {xs : List Nat} (h : n ∈ xs) : n ≤ xs.sum := by
  induction xs with
  | nil => cases h
  | cons x xs ih =>
    simp only [List.sum_cons]
    cases h with
    | head => omega
    | tail _ h => have := ih h; omega

theorem RTx_of_WF {tx : Tx} (h : WFTx tx) : RTx tx := by
  obtain ⟨h1, h2, h3, h4, h5, h6, h7, h8⟩ := h
  refine ⟨h1, h2, by omega, by omega, ?_, ?_, ?_⟩
  · intro i hi
    obtain ⟨a, b, c⟩ := h6 i hi
    exact ⟨a, by omega, c⟩
  · intro o ho
    obtain ⟨a, b⟩ := h7 o ho
    exact ⟨a, by omega⟩
  · intro ws hws
    obtain ⟨a, b⟩ := h8 ws hws
    refine ⟨a, fun w hw => ?_⟩
    obtain ⟨c, d⟩ := b w hw
    refine ⟨by omega, fun ch hch => ?_⟩
    have : ch.length ≤ witBytes w := by
      unfold witBytes
      exact le_sum_of_mem (List.mem_map_of_mem hch)
    omega

/-- on the library's domain the encoder's output is the grammar's string -/
theorem encTx_eq_txBytes {tx : Tx} (h : WFTx tx) : encTx tx true = .ok (txBytes tx) := by
  have hcs := canSerialize_of_WF tx h
  obtain ⟨_, _, h3, _, _, _, _, h8⟩ := h
  unfold encTx txBytes
  rw [hcs]
  simp only [Bool.not_true, Bool.false_eq_true, ↓reduceIte, tx_Tx_serialize_1, tx_Tx_serialize_2]
  congr 1
  cases hwit : tx.witnesses with
  | none =>
    simp [witLen, witList, hwit, encMany]
  | some ws =>
    obtain ⟨hlen, _⟩ := h8 ws hwit
    have h1 : 0 < tx.inputs.length := by omega
    have h2 : 0 < witLen tx := by simp [witLen, hwit]; omega
    simp [h1, h2, segwitFlag, witList, hwit]

theorem WF_strip {tx : Tx} (h : WFTx tx) : WFTx { tx with witnesses := none } := by
  obtain ⟨h1, h2, h3, h4, h5, h6, h7, _⟩ := h
  exact ⟨h1, h2, h3, h4, h5, h6, h7, by simp⟩

/-- the witness-stripped serialization is the grammar's string for the transaction without witnesses -/
theorem encTx_false_eq {tx : Tx} (h : WFTx tx) :
    encTx tx false = .ok (txBytes { tx with witnesses := none }) := by
  have hcs := canSerialize_of_WF tx h
  unfold encTx txBytes
  rw [hcs]
  simp [tx_Tx_serialize_1, tx_Tx_serialize_2, witList, encMany]

/-! ### headers and blocks -/

theorem IsHeader_iff (h : Header) (bs : Bytes) : IsHeader h bs ↔ WFHeader h ∧ bs = encHeader h := by
  unfold IsHeader WFHeader encHeader
  constructor
  · rintro ⟨hp, hm, v, t, b, n, hv, ht, hb, hn, rfl⟩
    obtain ⟨hv1, rfl⟩ := LE_iff.mp hv
    obtain ⟨ht1, rfl⟩ := LE_iff.mp ht
    obtain ⟨hb1, rfl⟩ := LE_iff.mp hb
    obtain ⟨hn1, rfl⟩ := LE_iff.mp hn
    have := p32
    exact ⟨⟨by omega, hp, hm, by omega, by omega, by omega⟩, rfl⟩
  · rintro ⟨⟨hv, hp, hm, ht, hb, hn⟩, rfl⟩
    have := p32
    exact ⟨hp, hm, _, _, _, _, LE_iff.mpr ⟨by omega, rfl⟩, LE_iff.mpr ⟨by omega, rfl⟩,
      LE_iff.mpr ⟨by omega, rfl⟩, LE_iff.mpr ⟨by omega, rfl⟩, rfl⟩

theorem encTxs_eq {txs : List Tx} (h : ∀ t ∈ txs, WFTx t) : encTxs txs = .ok (encMany txBytes txs) := by
  induction txs with
  | nil => rfl
  | cons t ts ih =>
    have h1 := encTx_eq_txBytes (h t (by simp))
    have h2 := ih (fun x hx => h x (by simp [hx]))
    simp only [encTxs, bind, Outcome.bind, h1, h2]
    simp [encMany, pure]

theorem encBlock_eq {b : Block} (h : WFBlock b) :
    encBlock b = .ok (encHeader b.header ++ (encVarint b.txs.length ++ encMany txBytes b.txs)) := by
  unfold encBlock
  simp only [bind, Outcome.bind, encTxs_eq h.2.2, pure, List.append_assoc]

theorem IsBlock_iff {b : Block} (h : WFBlock b) (bs : Bytes) : IsBlock b bs ↔ encBlock b = .ok bs := by
  rw [encBlock_eq h]
  unfold IsBlock
  constructor
  · rintro ⟨hd, txs, hh, ht, rfl⟩
    obtain ⟨_, rfl⟩ := (IsHeader_iff _ _).mp hh
    obtain ⟨_, _, rfl⟩ := (Vector_iff IsTx_iff _ _).mp ht
    rfl
  · intro he
    injection he with he
    subst he
    obtain ⟨hw, hl, ht⟩ := h
    exact ⟨_, _, (IsHeader_iff _ _).mpr ⟨hw, rfl⟩,
      (Vector_iff IsTx_iff _ _).mpr ⟨by omega, fun t ht' => RTx_of_WF (ht t ht'), rfl⟩, rfl⟩

end BtcVerif.Proofs.WireSpec
