/-
  Helper lemmas for C10: BIP38 encrypted keys (non-EC-multiplied round trip, flag strictness, the
  address-hash check). The primitives are abstract (`Bip38.Prims`). Core Lean only.
-/
import BtcVerif.Model.Bip38
import BtcVerif.Proofs.Base58

namespace BtcVerif.Proofs.Bip38
open BtcVerif BtcVerif.Model BtcVerif.Model.Bip38 BtcVerif.Gen.Guards

/-! ### slices and xor -/

theorem slice_ok (s : Bytes) (lo hi : Nat) (h1 : lo ≤ hi) (h2 : hi ≤ s.length) :
    slice s lo hi = .ok ((s.take hi).drop lo) := by
  unfold slice; rw [if_pos ⟨h1, h2⟩]

theorem slice_prefix (s : Bytes) (hi : Nat) (h : hi ≤ s.length) : slice s 0 hi = .ok (s.take hi) := by
  rw [slice_ok s 0 hi (Nat.zero_le _) h]; simp

theorem slice_suffix (s : Bytes) (lo : Nat) (h : lo ≤ s.length) : slice s lo s.length = .ok (s.drop lo) := by
  rw [slice_ok s lo s.length h (Nat.le_refl _)]; simp

theorem slice_ne_err (s : Bytes) (lo hi : Nat) : slice s lo hi ≠ .err := by
  unfold slice; split <;> simp

theorem xorBytes_ok (a b : Bytes) (h : a.length = b.length) :
    xorBytes a b = .ok (List.zipWith (· ^^^ ·) a b) := by
  unfold xorBytes; rw [if_neg (by simpa using h)]

theorem xor_cancel : ∀ (a b : Bytes), a.length = b.length →
    List.zipWith (· ^^^ ·) (List.zipWith (· ^^^ ·) a b) b = a := by
  intro a
  induction a with
  | nil => intro b h; cases b <;> simp_all
  | cons x xs ih =>
    intro b h
    cases b with
    | nil => simp at h
    | cons y ys =>
      simp only [List.zipWith_cons_cons]
      rw [ih ys (by simpa using h)]
      congr 1
      rw [UInt8.xor_assoc, UInt8.xor_self, UInt8.xor_zero]

theorem zipWith_length (a b : Bytes) (h : a.length = b.length) :
    (List.zipWith (· ^^^ ·) a b).length = a.length := by
  simp [h]

/-! ### what a successful `Decrypt` implies -/

theorem map_ok {α β} (f : α → β) (x : Outcome α) (b : β) (h : x.map f = .ok b) : ∃ a, x = .ok a ∧ f a = b := by
  cases x with
  | ok a => exact ⟨a, rfl, by simpa [Outcome.map] using h⟩
  | err => simp [Outcome.map] at h
  | panic => simp [Outcome.map] at h

/-- the flag byte accepted for a non-EC-multiplied key, and the flag it yields -/
theorem decryptPlain_ok (P : Prims) (d pw k : Bytes) (c : Bool) (h : decryptPlain P d pw = .ok (k, c)) :
    ∃ flag, d[2]? = some flag ∧ flag.toNat ||| 32 = 224 ∧ c = decide (flag.toNat &&& 32 ≠ 0) ∧
      plainKey P d pw = .ok k := by
  unfold decryptPlain at h
  cases hf : d[2]? with
  | none => rw [hf] at h; cases h
  | some flag =>
    rw [hf] at h
    simp only at h
    split at h
    · cases h
    · rename_i hg
      obtain ⟨k', hk, he⟩ := map_ok _ _ _ h
      injection he with he1 he2
      subst he1
      refine ⟨flag, rfl, ?_, ?_, hk⟩
      · simpa [bip38_decrypt_0] using hg
      · rw [← he2]; rfl

theorem decryptEC_ok (P : Prims) (d pw k : Bytes) (c : Bool) (h : decryptEC P d pw = .ok (k, c)) :
    ∃ flag, d[2]? = some flag ∧ flag.toNat &&& 219 = 0 ∧ c = decide (flag.toNat &&& 32 ≠ 0) := by
  unfold decryptEC at h
  cases hf : d[2]? with
  | none => rw [hf] at h; cases h
  | some flag =>
    rw [hf] at h
    simp only at h
    split at h
    · cases h
    · rename_i hg
      obtain ⟨k', hk, he⟩ := map_ok _ _ _ h
      injection he with he1 he2
      refine ⟨flag, rfl, ?_, ?_⟩
      · simpa [bip38_decryptECMult_0] using hg
      · rw [← he2]; rfl

theorem checkAddress_ok (P : Prims) (d : Bytes) (r r' : Bytes × Bool) (h : checkAddress P d r = .ok r') :
    r' = r ∧ ∃ addr, deriveAddress P r.1 r.2 = .ok addr ∧
      slice (P.dsha256 addr) 0 4 = slice d 3 7 ∧ ∃ hash, slice d 3 7 = .ok hash := by
  unfold checkAddress at h
  cases ha : deriveAddress P r.1 r.2 with
  | err => rw [ha] at h; cases h
  | panic => rw [ha] at h; cases h
  | ok addr =>
    rw [ha] at h
    simp only at h
    cases h1 : slice d 3 7 with
    | err => exact absurd h1 (slice_ne_err _ _ _)
    | panic => rw [h1] at h; cases h
    | ok addressHash =>
      cases h2 : slice (P.dsha256 addr) 0 4 with
      | err => exact absurd h2 (slice_ne_err _ _ _)
      | panic => rw [h1, h2] at h; cases h
      | ok derived =>
        rw [h1, h2] at h
        simp only at h
        split at h
        · cases h
        · rename_i hg
          injection h with h
          have heq : derived = addressHash := by simpa [bip38_Decrypt_4] using hg
          exact ⟨h.symm, addr, rfl, by rw [heq], addressHash, rfl⟩

/-- a successful `Decrypt`: the payload is well formed, its flag byte is canonical, the returned
    compression flag is the flag bit, and the address hash of the recovered key is the one embedded
    in the payload -/
theorem decrypt_ok (P : Prims) (s pw k : Bytes) (c : Bool) (h : decrypt P s pw = .ok (k, c)) :
    ∃ d flag, Base58Check.decode P.cksum s = .ok d ∧ d.length = 39 ∧ d[0]? = some 1 ∧ d[2]? = some flag ∧
      ((d[1]? = some 0x42 ∧ flag.toNat ||| 32 = 224) ∨ (d[1]? = some 0x43 ∧ flag.toNat &&& 219 = 0)) ∧
      c = decide (flag.toNat &&& 32 ≠ 0) ∧
      ∃ addr, deriveAddress P k c = .ok addr ∧ slice (P.dsha256 addr) 0 4 = slice d 3 7 := by
  unfold decrypt at h
  cases hd : Base58Check.decode P.cksum s with
  | err => rw [hd] at h; cases h
  | panic => rw [hd] at h; cases h
  | ok d =>
    rw [hd] at h
    simp only at h
    split at h
    · cases h
    · rename_i hlen
      have hl : d.length = 39 := by
        simp only [bip38_Decrypt_0, decide_eq_true_eq] at hlen; omega
      cases h0 : d[0]? with
      | none => rw [h0] at h; cases h
      | some b0 =>
        cases h1 : d[1]? with
        | none => rw [h0, h1] at h; cases h
        | some b1 =>
          rw [h0, h1] at h
          simp only at h
          split at h
          · cases h
          · rename_i hb0
            have hb0' : b0 = 1 := by
              have : b0.toNat = 1 := by simpa [bip38_Decrypt_1] using hb0
              exact UInt8.toNat_inj.mp (by simpa using this)
            subst hb0'
            by_cases hec : bip38_Decrypt_2 (decodedEncryptedKey_1 := b1.toNat) = true
          · rw [if_pos hec] at h
            cases hin : decryptEC P d pw with
            | err => rw [hin] at h; cases h
            | panic => rw [hin] at h; cases h
            | ok r =>
              rw [hin] at h
              simp only at h
              obtain ⟨hr, addr, hda, hslice, _⟩ := checkAddress_ok P d r (k, c) h
              subst hr
              obtain ⟨flag, hf, hflag, hc⟩ := decryptEC_ok P d pw k c hin
              have hb1 : b1 = 0x43 := by
                have : b1.toNat = 67 := by simpa [bip38_Decrypt_2] using hec
                exact UInt8.toNat_inj.mp (by simpa using this)
              exact ⟨d, flag, rfl, hl, rfl, hf, Or.inr ⟨by rw [hb1], hflag⟩, hc, addr, hda, hslice⟩
          · rw [if_neg hec] at h
            by_cases hpl : bip38_Decrypt_3 (decodedEncryptedKey_1 := b1.toNat) = true
            · rw [if_pos hpl] at h
              cases hin : decryptPlain P d pw with
              | err => rw [hin] at h; cases h
              | panic => rw [hin] at h; cases h
              | ok r =>
                rw [hin] at h
                simp only at h
                obtain ⟨hr, addr, hda, hslice, _⟩ := checkAddress_ok P d r (k, c) h
                subst hr
                obtain ⟨flag, hf, hflag, hc, _⟩ := decryptPlain_ok P d pw k c hin
                have hb1 : b1 = 0x42 := by
                  have : b1.toNat = 66 := by simpa [bip38_Decrypt_3] using hpl
                  exact UInt8.toNat_inj.mp (by simpa using this)
                exact ⟨d, flag, rfl, hl, rfl, hf, Or.inl ⟨by rw [hb1], hflag⟩, hc, addr, hda, hslice⟩
            · rw [if_neg hpl] at h
              cases h

/-! ### the non-EC-multiplied round trip -/

/-- what the abstract primitives must satisfy: AES decryption inverts encryption and keeps the
    block length, the hash and key-derivation functions return the lengths they are asked for -/
structure Good (P : Prims) : Prop where
  aes_inv : ∀ key x, P.aesDec key (P.aesEnc key x) = x
  aes_len : ∀ key x, x.length = 16 → (P.aesEnc key x).length = 16
  scrypt_len : ∀ pw salt N r p n, (P.scrypt pw salt N r p n).length = n
  dsha_len : ∀ x, (P.dsha256 x).length = 32
  ck_len : ∀ x, (P.cksum x).length = 4

theorem flag_plain (c : Bool) :
    (encodeFlagByte c false false).toNat ||| 32 = 224 ∧
    decide ((encodeFlagByte c false false).toNat &&& 32 ≠ 0) = c := by
  cases c <;> decide

/-- the five fields of a 39-byte non-EC payload -/
theorem layout39 (f : UInt8) (salt e1 e2 : Bytes) (hs : salt.length = 4) (h1 : e1.length = 16)
    (h2 : e2.length = 16) :
    let d := [0x01, 0x42] ++ [f] ++ salt ++ e1 ++ e2
    d.length = 39 ∧ d[0]? = some 1 ∧ d[1]? = some 0x42 ∧ d[2]? = some f ∧
      slice d 3 7 = .ok salt ∧ slice d 7 23 = .ok e1 ∧ slice d 23 d.length = .ok e2 := by
  intro d
  have hl : d.length = 39 := by simp [d, hs, h1, h2]
  refine ⟨hl, rfl, rfl, rfl, ?_, ?_, ?_⟩
  · rw [slice_ok d 3 7 (by decide) (by omega)]
    have e : d = [0x01, 0x42, f] ++ (salt ++ (e1 ++ e2)) := by simp [d]
    rw [e, show (7 : Nat) = 3 + 4 from rfl, List.take_add, List.take_left' (by rfl),
      List.drop_left' (by rfl), List.drop_left' (by rfl), List.take_left' hs]
  · rw [slice_ok d 7 23 (by decide) (by omega)]
    have e : d = ([0x01, 0x42, f] ++ salt) ++ (e1 ++ e2) := by simp [d]
    have h7 : ([0x01, 0x42, f] ++ salt).length = 7 := by simp [hs]
    rw [e, show (23 : Nat) = 7 + 16 from rfl, List.take_add, List.take_left' h7,
      List.drop_left' h7, List.drop_left' h7, List.take_left' h1]
  · rw [slice_suffix d 23 (by omega)]
    have e : d = ([0x01, 0x42, f] ++ salt ++ e1) ++ e2 := by simp [d]
    rw [e, List.drop_left' (by simp [hs, h1])]

/-- `Decrypt(Encrypt(key, pw, c), pw) = (key, c)` for every 32-byte key whose address can be
    derived, every passphrase and flag -/
theorem decrypt_encrypt (P : Prims) (g : Good P) (key pw : Bytes) (c : Bool) (hk : key.length = 32)
    (addr : Bytes) (hda : deriveAddress P key c = .ok addr) :
    ∃ s, encrypt P key pw c = .ok s ∧ decrypt P s pw = .ok (key, c) := by
  -- the values `Encrypt` computes
  generalize hsalt : (P.dsha256 addr).take 4 = salt
  have hsl : salt.length = 4 := by rw [← hsalt]; simp [g.dsha_len]
  generalize hkey : P.scrypt pw salt 16384 8 8 64 = sk
  have hskl : sk.length = 64 := by rw [← hkey]; exact g.scrypt_len _ _ _ _ _ _
  have s_salt : slice (P.dsha256 addr) 0 4 = .ok salt := by
    rw [slice_prefix _ 4 (by rw [g.dsha_len]; decide), hsalt]
  have s_dk1 : slice sk 0 32 = .ok (sk.take 32) := slice_prefix _ _ (by omega)
  have s_dk2 : slice sk 32 sk.length = .ok (sk.drop 32) := slice_suffix _ _ (by omega)
  have s_k1 : slice key 0 16 = .ok (key.take 16) := slice_prefix _ _ (by omega)
  have s_k2 : slice key 16 key.length = .ok (key.drop 16) := slice_suffix _ _ (by omega)
  have hdk1l : (sk.take 32).length = 32 := by simp; omega
  have s_d1a : slice (sk.take 32) 0 16 = .ok ((sk.take 32).take 16) := slice_prefix _ _ (by omega)
  have s_d1b : slice (sk.take 32) 16 (sk.take 32).length = .ok ((sk.take 32).drop 16) :=
    slice_suffix _ _ (by omega)
  generalize hd1a : (sk.take 32).take 16 = d1a at s_d1a
  generalize hd1b : (sk.take 32).drop 16 = d1b at s_d1b
  have hd1al : d1a.length = 16 := by rw [← hd1a]; simp; omega
  have hd1bl : d1b.length = 16 := by rw [← hd1b]; simp; omega
  have hk1l : (key.take 16).length = 16 := by simp; omega
  have hk2l : (key.drop 16).length = 16 := by simp; omega
  have x1 := xorBytes_ok (key.take 16) d1a (by omega)
  have x2 := xorBytes_ok (key.drop 16) d1b (by omega)
  generalize he1 : P.aesEnc (sk.drop 32) (List.zipWith (· ^^^ ·) (key.take 16) d1a) = e1
  generalize he2 : P.aesEnc (sk.drop 32) (List.zipWith (· ^^^ ·) (key.drop 16) d1b) = e2
  have he1l : e1.length = 16 := by rw [← he1]; exact g.aes_len _ _ (by simp; omega)
  have he2l : e2.length = 16 := by rw [← he2]; exact g.aes_len _ _ (by simp; omega)
  have henc : encrypt P key pw c = .ok (Base58Check.encode P.cksum
      ([0x01, 0x42] ++ [encodeFlagByte c false false] ++ salt ++ e1 ++ e2)) := by
    unfold encrypt
    have hg : bip38_Encrypt_0 (len_privateKey := key.length) = false := by simp [bip38_Encrypt_0, hk]
    rw [hg]
    simp only [Bool.false_eq_true, if_false, hda, Outcome.bind_ok, s_salt, hkey, s_dk1, s_dk2, s_k1, s_k2,
      s_d1a, s_d1b, x1, x2, he1, he2, Outcome.pure_eq, prefixBytes, bip38_prefixBytes_0]
  refine ⟨_, henc, ?_⟩
  -- `Decrypt` on that string
  obtain ⟨hl, h0, h1, h2, l37, l723, l23⟩ :=
    layout39 (encodeFlagByte c false false) salt e1 e2 hsl he1l he2l
  generalize hd : [0x01, 0x42] ++ [encodeFlagByte c false false] ++ salt ++ e1 ++ e2 = d at *
  unfold decrypt
  rw [Proofs.Base58.Check.decode_encode P.cksum g.ck_len d]
  have hg0 : bip38_Decrypt_0 (len_decodedEncryptedKey := d.length) = false := by simp [bip38_Decrypt_0, hl]
  simp only [hg0, Bool.false_eq_true, if_false, h0, h1]
  have hg1 : bip38_Decrypt_1 (decodedEncryptedKey_0 := (1 : UInt8).toNat) = false := by decide
  have hg2 : bip38_Decrypt_2 (decodedEncryptedKey_1 := (0x42 : UInt8).toNat) = false := by decide
  have hg3 : bip38_Decrypt_3 (decodedEncryptedKey_1 := (0x42 : UInt8).toNat) = true := by decide
  simp only [hg1, hg2, hg3, Bool.false_eq_true, if_false, if_true]
  -- the inner decryption
  have hplain : plainKey P d pw = .ok key := by
    unfold plainKey
    have y1 : xorBytes (P.aesDec (sk.drop 32) e1) d1a = .ok (key.take 16) := by
      rw [← he1, g.aes_inv, xorBytes_ok _ _ (by simp; omega), xor_cancel _ _ (by omega)]
    have y2 : xorBytes (P.aesDec (sk.drop 32) e2) d1b = .ok (key.drop 16) := by
      rw [← he2, g.aes_inv, xorBytes_ok _ _ (by simp; omega), xor_cancel _ _ (by omega)]
    simp only [l37, Outcome.bind_ok, hkey, s_dk1, s_dk2, l723, l23, s_d1a, s_d1b, y1, y2, Outcome.pure_eq,
      List.take_append_drop]
  have hfl := flag_plain c
  have hinner : decryptPlain P d pw = .ok (key, c) := by
    unfold decryptPlain
    rw [h2]
    simp only [bip38_decrypt_0, hfl.1, ne_eq, not_true_eq_false, decide_false, Bool.false_eq_true, if_false,
      hplain, Outcome.map, bip38_decrypt_asg0, hfl.2]
  rw [hinner]
  simp only
  unfold checkAddress
  rw [hda]
  simp only [l37, s_salt, bip38_Decrypt_4, BEq.rfl, Bool.not_true, Bool.false_eq_true, if_false]

end BtcVerif.Proofs.Bip38
