/-
  Helper lemmas for C10: BIP38 encrypted keys (non-EC-multiplied round trip, flag strictness, the
  address-hash check). The primitives are abstract (`Bip38.Prims`). Core Lean only.
-/
import BtcVerif.Model.Bip38
import BtcVerif.Proofs.Base58

namespace BtcVerif.Proofs.Bip38
open BtcVerif BtcVerif.Model BtcVerif.Model.Bip38 BtcVerif.Gen.Guards

/-! ### slices and xor -/

theorem slice_ok (s : Bytes) (lo hi : Nat) (h1 : lo ≤ hi) (h2 : hi ≤ s.length) :
    slice s lo hi = .ok ((s.take hi).drop lo) := by
  unfold slice; rw [if_pos ⟨h1, h2⟩]

theorem slice_prefix (s : Bytes) (hi : Nat) (h : hi ≤ s.length) : slice s 0 hi = .ok (s.take hi) := by
  rw [slice_ok s 0 hi (Nat.zero_le _) h]; simp

theorem slice_suffix (s : Bytes) (lo : Nat) (h : lo ≤ s.length) : slice s lo s.length = .ok (s.drop lo) := by
  rw [slice_ok s lo s.length h (Nat.le_refl _)]; simp

theorem slice_ne_err (s : Bytes) (lo hi : Nat) : slice s lo hi ≠ .err := by
  unfold slice; split <;> simp

theorem xorBytes_ok (a b : Bytes) (h : a.length = b.length) :
    xorBytes a b = .ok (List.zipWith (· ^^^ ·) a b) := by
  unfold xorBytes; rw [if_neg (by simpa using h)]

theorem xor_cancel : ∀ (a b : Bytes), a.length = b.length →
    List.zipWith (· ^^^ ·) (List.zipWith (· ^^^ ·) a b) b = a := by
  intro a
  induction a with
  | nil => intro b h; cases b <;> simp_all
  | cons x xs ih =>
    intro b h
    cases b with
    | nil => simp at h
    | cons y ys =>
      simp only [List.zipWith_cons_cons]
      rw [ih ys (by simpa using h)]
      congr 1
      rw [UInt8.xor_assoc, UInt8.xor_self, UInt8.xor_zero]

theorem zipWith_length (a b : Bytes) (h : a.length = b.length) :
    (List.zipWith (· ^^^ ·) a b).length = a.length := by
  simp [h]

/-! ### what a successful `Decrypt` implies -/

theorem map_ok {α β} (f : α → β) (x : Outcome α) (b : β) (h : x.map f = .ok b) : ∃ a, x = .ok a ∧ f a = b := by
  cases x with
  | ok a => exact ⟨a, rfl, by simpa [Outcome.map] using h⟩
  | err => simp [Outcome.map] at h
  | panic => simp [Outcome.map] at h

/-- the flag byte accepted for a non-EC-multiplied key, and the flag it yields -/
theorem decryptPlain_ok (P : Prims) (d pw k : Bytes) (c : Bool) (h : decryptPlain P d pw = .ok (k, c)) :
    ∃ flag, d[2]? = some flag ∧ flag.toNat ||| 32 = 224 ∧ c = decide (flag.toNat &&& 32 ≠ 0) ∧
      plainKey P d pw = .ok k := by
  unfold decryptPlain at h
  cases hf : d[2]? with
  | none => rw [hf] at h; cases h
  | some flag =>
    rw [hf] at h
    simp only at h
    split at h
    · cases h
    · rename_i hg
      obtain ⟨k', hk, he⟩ := map_ok _ _ _ h
      injection he with he1 he2
      subst he1
      refine ⟨flag, rfl, ?_, ?_, hk⟩
      · simpa [bip38_decrypt_0] using hg
      · rw [← he2]; rfl

theorem decryptEC_ok (P : Prims) (d pw k : Bytes) (c : Bool) (h : decryptEC P d pw = .ok (k, c)) :
    ∃ flag, d[2]? = some flag ∧ flag.toNat &&& 219 = 0 ∧ c = decide (flag.toNat &&& 32 ≠ 0) := by
  unfold decryptEC at h
  cases hf : d[2]? with
  | none => rw [hf] at h; cases h
  | some flag =>
    rw [hf] at h
    simp only at h
    split at h
    · cases h
    · rename_i hg
      obtain ⟨k', hk, he⟩ := map_ok _ _ _ h
      injection he with he1 he2
      refine ⟨flag, rfl, ?_, ?_⟩
      · simpa [bip38_decryptECMult_0] using hg
      · rw [← he2]; rfl

theorem checkAddress_ok (P : Prims) (d : Bytes) (r r' : Bytes × Bool) (h : checkAddress P d r = .ok r') :
    r' = r ∧ ∃ addr, deriveAddress P r.1 r.2 = .ok addr ∧
      slice (P.dsha256 addr) 0 4 = slice d 3 7 ∧ ∃ hash, slice d 3 7 = .ok hash := by
  unfold checkAddress at h
  cases ha : deriveAddress P r.1 r.2 with
  | err => rw [ha] at h; cases h
  | panic => rw [ha] at h; cases h
  | ok addr =>
    rw [ha] at h
    simp only at h
    cases h1 : slice d 3 7 with
    | err => exact absurd h1 (slice_ne_err _ _ _)
    | panic => rw [h1] at h; cases h
    | ok addressHash =>
      cases h2 : slice (P.dsha256 addr) 0 4 with
      | err => exact absurd h2 (slice_ne_err _ _ _)
      | panic => rw [h1, h2] at h; cases h
      | ok derived =>
        rw [h1, h2] at h
        simp only at h
        split at h
        · cases h
        · rename_i hg
          injection h with h
          have heq : derived = addressHash := by simpa [bip38_Decrypt_4] using hg
          exact ⟨h.symm, addr, rfl, by rw [h2, heq], addressHash, rfl⟩

/-- a successful `Decrypt`: the payload is well formed, its flag byte is canonical, the returned
    compression flag is the flag bit, and the address hash of the recovered key is the one embedded
    in the payload -/
theorem decrypt_ok (P : Prims) (s pw k : Bytes) (c : Bool) (h : decrypt P s pw = .ok (k, c)) :
    ∃ d flag, Base58Check.decode P.cksum s = .ok d ∧ d.length = 39 ∧ d[0]? = some 1 ∧ d[2]? = some flag ∧
      ((d[1]? = some 0x42 ∧ flag.toNat ||| 32 = 224) ∨ (d[1]? = some 0x43 ∧ flag.toNat &&& 219 = 0)) ∧
      c = decide (flag.toNat &&& 32 ≠ 0) ∧
      ∃ addr, deriveAddress P k c = .ok addr ∧ slice (P.dsha256 addr) 0 4 = slice d 3 7 := by
  unfold decrypt at h
  cases hd : Base58Check.decode P.cksum s with
  | err => rw [hd] at h; cases h
  | panic => rw [hd] at h; cases h
  | ok d =>
    rw [hd] at h
    simp only at h
    split at h
    · cases h
    · rename_i hlen
      have hl : d.length = 39 := by
        simp only [bip38_Decrypt_0, decide_eq_true_eq] at hlen; omega
      cases h0 : d[0]? with
      | none => rw [h0] at h; cases h
      | some b0 =>
        cases h1 : d[1]? with
        | none => rw [h0, h1] at h; cases h
        | some b1 =>
          rw [h0, h1] at h
          simp only at h
          split at h
          · cases h
          · rename_i hb0
            have hb0' : b0 = 1 := by
              have : b0.toNat = 1 := by simpa [bip38_Decrypt_1] using hb0
              exact UInt8.toNat_inj.mp (by simpa using this)
            subst hb0'
            by_cases hec : bip38_Decrypt_2 (decodedEncryptedKey_1 := b1.toNat) = true
            · rw [if_pos hec] at h
              cases hin : decryptEC P d pw with
              | err => rw [hin] at h; cases h
              | panic => rw [hin] at h; cases h
              | ok r =>
                rw [hin] at h
                simp only at h
                obtain ⟨hr, addr, hda, hslice, _⟩ := checkAddress_ok P d r (k, c) h
                subst hr
                obtain ⟨flag, hf, hflag, hc⟩ := decryptEC_ok P d pw k c hin
                have hb1 : b1 = 0x43 := by
                  have : b1.toNat = 67 := by simpa [bip38_Decrypt_2] using hec
                  exact UInt8.toNat_inj.mp (by simpa using this)
                exact ⟨d, flag, rfl, hl, h0, hf, Or.inr ⟨by rw [h1, hb1], hflag⟩, hc, addr, hda, hslice⟩
            · rw [if_neg hec] at h
              by_cases hpl : bip38_Decrypt_3 (decodedEncryptedKey_1 := b1.toNat) = true
              · rw [if_pos hpl] at h
                cases hin : decryptPlain P d pw with
                | err => rw [hin] at h; cases h
                | panic => rw [hin] at h; cases h
                | ok r =>
                  rw [hin] at h
                  simp only at h
                  obtain ⟨hr, addr, hda, hslice, _⟩ := checkAddress_ok P d r (k, c) h
                  subst hr
                  obtain ⟨flag, hf, hflag, hc, _⟩ := decryptPlain_ok P d pw k c hin
                  have hb1 : b1 = 0x42 := by
                    have : b1.toNat = 66 := by simpa [bip38_Decrypt_3] using hpl
                    exact UInt8.toNat_inj.mp (by simpa using this)
                  exact ⟨d, flag, rfl, hl, h0, hf, Or.inl ⟨by rw [h1, hb1], hflag⟩, hc, addr, hda, hslice⟩
              · rw [if_neg hpl] at h
                cases h

/-! ### the non-EC-multiplied round trip -/

/-- what the abstract primitives must satisfy: AES decryption inverts encryption and keeps the
    block length, the hash and key-derivation functions return the lengths they are asked for -/
structure Good (P : Prims) : Prop where
  aes_inv : ∀ key x, P.aesDec key (P.aesEnc key x) = x
  aes_len : ∀ key x, x.length = 16 → (P.aesEnc key x).length = 16
  scrypt_len : ∀ pw salt N r p n, (P.scrypt pw salt N r p n).length = n
  dsha_len : ∀ x, (P.dsha256 x).length = 32
  ck_len : ∀ x, (P.cksum x).length = 4

theorem flag_plain (c : Bool) :
    (encodeFlagByte c false false).toNat ||| 32 = 224 ∧
    decide ((encodeFlagByte c false false).toNat &&& 32 ≠ 0) = c := by
  cases c <;> decide

/-- the five fields of a 39-byte non-EC payload -/
theorem layout39 (f : UInt8) (salt e1 e2 : Bytes) (hs : salt.length = 4) (h1 : e1.length = 16)
    (h2 : e2.length = 16) :
    let d := [0x01, 0x42] ++ [f] ++ salt ++ e1 ++ e2
    d.length = 39 ∧ d[0]? = some 1 ∧ d[1]? = some 0x42 ∧ d[2]? = some f ∧
      slice d 3 7 = .ok salt ∧ slice d 7 23 = .ok e1 ∧ slice d 23 d.length = .ok e2 := by
  intro d
  have hl : d.length = 39 := by simp [d, hs, h1, h2]
  refine ⟨hl, rfl, rfl, rfl, ?_, ?_, ?_⟩
  · rw [slice_ok d 3 7 (by decide) (by omega)]
    have e : d = [0x01, 0x42, f] ++ (salt ++ (e1 ++ e2)) := by simp [d]
    rw [e, show (7 : Nat) = 3 + 4 from rfl, List.take_add, List.take_left' (by rfl),
      List.drop_left' (by rfl), List.drop_left' (by rfl), List.take_left' hs]
  · rw [slice_ok d 7 23 (by decide) (by omega)]
    have e : d = ([0x01, 0x42, f] ++ salt) ++ (e1 ++ e2) := by simp [d]
    have h7 : ([0x01, 0x42, f] ++ salt).length = 7 := by simp [hs]
    rw [e, show (23 : Nat) = 7 + 16 from rfl, List.take_add, List.take_left' h7,
      List.drop_left' h7, List.drop_left' h7, List.take_left' h1]
  · rw [slice_suffix d 23 (by omega)]
    have e : d = ([0x01, 0x42, f] ++ salt ++ e1) ++ e2 := by simp [d]
    rw [e, List.drop_left' (by simp [hs, h1])]

/-- `Decrypt(Encrypt(key, pw, c), pw) = (key, c)` for every 32-byte key whose address can be
    derived, every passphrase and flag -/
theorem decrypt_encrypt (P : Prims) (g : Good P) (key pw : Bytes) (c : Bool) (hk : key.length = 32)
    (addr : Bytes) (hda : deriveAddress P key c = .ok addr) :
    ∃ s, encrypt P key pw c = .ok s ∧ decrypt P s pw = .ok (key, c) := by
  -- the values `Encrypt` computes
  generalize hsalt : (P.dsha256 addr).take 4 = salt
  have hsl : salt.length = 4 := by rw [← hsalt]; simp [g.dsha_len]
  generalize hkey : P.scrypt pw salt 16384 8 8 64 = sk
  have hskl : sk.length = 64 := by rw [← hkey]; exact g.scrypt_len _ _ _ _ _ _
  have s_salt : slice (P.dsha256 addr) 0 4 = .ok salt := by
    rw [slice_prefix _ 4 (by rw [g.dsha_len]; decide), hsalt]
  have s_dk1 : slice sk 0 32 = .ok (sk.take 32) := slice_prefix _ _ (by omega)
  have s_dk2 : slice sk 32 sk.length = .ok (sk.drop 32) := slice_suffix _ _ (by omega)
  have s_k1 : slice key 0 16 = .ok (key.take 16) := slice_prefix _ _ (by omega)
  have s_k2 : slice key 16 key.length = .ok (key.drop 16) := slice_suffix _ _ (by omega)
  have hdk1l : (sk.take 32).length = 32 := by simp; omega
  have s_d1a : slice (sk.take 32) 0 16 = .ok ((sk.take 32).take 16) := slice_prefix _ _ (by omega)
  have s_d1b : slice (sk.take 32) 16 (sk.take 32).length = .ok ((sk.take 32).drop 16) :=
    slice_suffix _ _ (by omega)
  generalize hd1a : (sk.take 32).take 16 = d1a at s_d1a
  generalize hd1b : (sk.take 32).drop 16 = d1b at s_d1b
  have hd1al : d1a.length = 16 := by rw [← hd1a]; simp; omega
  have hd1bl : d1b.length = 16 := by rw [← hd1b]; simp; omega
  have hk1l : (key.take 16).length = 16 := by simp; omega
  have hk2l : (key.drop 16).length = 16 := by simp; omega
  have x1 := xorBytes_ok (key.take 16) d1a (by omega)
  have x2 := xorBytes_ok (key.drop 16) d1b (by omega)
  generalize he1 : P.aesEnc (sk.drop 32) (List.zipWith (· ^^^ ·) (key.take 16) d1a) = e1
  generalize he2 : P.aesEnc (sk.drop 32) (List.zipWith (· ^^^ ·) (key.drop 16) d1b) = e2
  have he1l : e1.length = 16 := by rw [← he1]; exact g.aes_len _ _ (by simp; omega)
  have he2l : e2.length = 16 := by rw [← he2]; exact g.aes_len _ _ (by simp; omega)
  have henc : encrypt P key pw c = .ok (Base58Check.encode P.cksum
      ([0x01, 0x42] ++ [encodeFlagByte c false false] ++ salt ++ e1 ++ e2)) := by
    unfold encrypt
    have hg : bip38_Encrypt_0 (len_privateKey := key.length) = false := by simp [bip38_Encrypt_0, hk]
    rw [hg]
    simp only [Bool.false_eq_true, if_false, hda, Outcome.bind_ok, s_salt, hkey, s_dk1, s_dk2, s_k1, s_k2,
      s_d1a, s_d1b, x1, x2, he1, he2, Outcome.pure_eq, prefixBytes, bip38_prefixBytes_0]
  refine ⟨_, henc, ?_⟩
  -- `Decrypt` on that string
  obtain ⟨hl, h0, h1, h2, l37, l723, l23⟩ :=
    layout39 (encodeFlagByte c false false) salt e1 e2 hsl he1l he2l
  generalize hd : [0x01, 0x42] ++ [encodeFlagByte c false false] ++ salt ++ e1 ++ e2 = d at *
  unfold decrypt
  rw [Proofs.Base58.Check.decode_encode P.cksum g.ck_len d]
  have hg0 : bip38_Decrypt_0 (len_decodedEncryptedKey := d.length) = false := by simp [bip38_Decrypt_0, hl]
  simp only [hg0, Bool.false_eq_true, if_false, h0, h1]
  have hg1 : bip38_Decrypt_1 (decodedEncryptedKey_0 := (1 : UInt8).toNat) = false := by decide
  have hg2 : bip38_Decrypt_2 (decodedEncryptedKey_1 := (0x42 : UInt8).toNat) = false := by decide
  have hg3 : bip38_Decrypt_3 (decodedEncryptedKey_1 := (0x42 : UInt8).toNat) = true := by decide
  simp only [hg1, hg2, hg3, Bool.false_eq_true, if_false, if_true]
  -- the inner decryption
  have hplain : plainKey P d pw = .ok key := by
    unfold plainKey
    have y1 : xorBytes (P.aesDec (sk.drop 32) e1) d1a = .ok (key.take 16) := by
      rw [← he1, g.aes_inv, xorBytes_ok _ _ (by simp; omega), xor_cancel _ _ (by omega)]
    have y2 : xorBytes (P.aesDec (sk.drop 32) e2) d1b = .ok (key.drop 16) := by
      rw [← he2, g.aes_inv, xorBytes_ok _ _ (by simp; omega), xor_cancel _ _ (by omega)]
    simp only [l37, Outcome.bind_ok, hkey, s_dk1, s_dk2, l723, l23, s_d1a, s_d1b, y1, y2, Outcome.pure_eq,
      List.take_append_drop]
  have hfl := flag_plain c
  have hinner : decryptPlain P d pw = .ok (key, c) := by
    unfold decryptPlain
    rw [h2]
    simp only [bip38_decrypt_0, hfl.1, ne_eq, not_true_eq_false, decide_false, Bool.false_eq_true, if_false,
      hplain, Outcome.map, bip38_decrypt_asg0, hfl.2]
  rw [hinner]
  simp only
  unfold checkAddress
  rw [hda]
  simp only [l37, s_salt, bip38_Decrypt_4, BEq.rfl, Bool.not_true, Bool.false_eq_true, if_false]

/-! ### the EC-multiplied round trip -/

theorem flag_ec (c lot : Bool) :
    (encodeFlagByte c true lot).toNat &&& 219 = 0 ∧
    decide ((encodeFlagByte c true lot).toNat &&& 32 ≠ 0) = c ∧
    decide ((encodeFlagByte c true lot).toNat &&& 4 ≠ 0) = lot := by
  cases c <;> cases lot <;> decide

/-- the six fields of a 39-byte EC-multiplied payload -/
theorem layout39ec (f : UInt8) (ah oe h1 e2 : Bytes) (hah : ah.length = 4) (hoe : oe.length = 8)
    (hh1 : h1.length = 8) (he2 : e2.length = 16) :
    let d := [0x01, 0x43] ++ [f] ++ ah ++ oe ++ h1 ++ e2
    d.length = 39 ∧ d[0]? = some 1 ∧ d[1]? = some 0x43 ∧ d[2]? = some f ∧
      slice d 3 7 = .ok ah ∧ slice d 7 15 = .ok oe ∧ slice d 15 23 = .ok h1 ∧
      slice d 23 d.length = .ok e2 := by
  intro d
  have hl : d.length = 39 := by simp [d, hah, hoe, hh1, he2]
  refine ⟨hl, rfl, rfl, rfl, ?_, ?_, ?_, ?_⟩
  · rw [slice_ok d 3 7 (by decide) (by omega)]
    have e : d = [0x01, 0x43, f] ++ (ah ++ (oe ++ h1 ++ e2)) := by simp [d]
    rw [e, show (7 : Nat) = 3 + 4 from rfl, List.take_add, List.take_left' (by rfl),
      List.drop_left' (by rfl), List.drop_left' (by rfl), List.take_left' hah]
  · rw [slice_ok d 7 15 (by decide) (by omega)]
    have e : d = ([0x01, 0x43, f] ++ ah) ++ (oe ++ (h1 ++ e2)) := by simp [d]
    have h7 : ([0x01, 0x43, f] ++ ah).length = 7 := by simp [hah]
    rw [e, show (15 : Nat) = 7 + 8 from rfl, List.take_add, List.take_left' h7,
      List.drop_left' h7, List.drop_left' h7, List.take_left' hoe]
  · rw [slice_ok d 15 23 (by decide) (by omega)]
    have e : d = ([0x01, 0x43, f] ++ ah ++ oe) ++ (h1 ++ e2) := by simp [d]
    have h15 : ([0x01, 0x43, f] ++ ah ++ oe).length = 15 := by simp [hah, hoe]
    rw [e, show (23 : Nat) = 15 + 8 from rfl, List.take_add, List.take_left' h15,
      List.drop_left' h15, List.drop_left' h15, List.take_left' hh1]
  · rw [slice_suffix d 23 (by omega)]
    have e : d = ([0x01, 0x43, f] ++ ah ++ oe ++ h1) ++ e2 := by simp [d]
    rw [e, List.drop_left' (by simp [hah, hoe, hh1])]

theorem magic_facts : magicLot.length = 8 ∧ magicPlain.length = 8 ∧ magicLot ≠ magicPlain := by decide

/-- Encrypting with an intermediate code and decrypting with the passphrase the code was made
    from returns the key `factorb · passfactor mod N` — provided the two ways of computing the
    public key agree (`hcomm`: the group law `(fb·pf)·G = fb·(pf·G)`, owned by C06). -/
theorem ec_roundtrip (P : Prims) (g : Good P) (useLot : Bool) (oe pw pf pp seedb : Bytes) (c : Bool)
    (hoe : oe.length = 8) (hpf : passFactorOf P useLot pw oe = .ok pf) (hpp : P.baseMul pf = .ok pp)
    (hppl : pp.length = 33) (hsl : seedb.length = 24) (pub addr : Bytes)
    (hpub : P.pointMul pp (P.dsha256 seedb) c = .ok pub) (haddr : P.p2pkh pub = .ok addr)
    (hcomm : P.pubKey (P.mulModN (P.dsha256 seedb) pf) c = .ok pub) :
    ∃ s, encryptIntermediateCode P seedb
        (Base58Check.encode P.cksum ((if useLot then magicLot else magicPlain) ++ oe ++ pp)) c = .ok s ∧
      decrypt P s pw = .ok (P.mulModN (P.dsha256 seedb) pf, c) := by
  obtain ⟨hml, hmp, hmne⟩ := magic_facts
  generalize hmagic : (if useLot then magicLot else magicPlain) = magic
  have hmagl : magic.length = 8 := by rw [← hmagic]; split <;> assumption
  -- the intermediate code payload and its fields
  generalize hic : magic ++ oe ++ pp = ic
  have hicl : ic.length = 49 := by rw [← hic]; simp [hmagl, hoe, hppl]
  have i_magic : slice ic 0 8 = .ok magic := by
    rw [slice_prefix ic 8 (by omega), ← hic, List.append_assoc, List.take_left' hmagl]
  have i_oe : slice ic 8 16 = .ok oe := by
    rw [slice_ok ic 8 16 (by decide) (by omega), ← hic, List.append_assoc,
      show (16 : Nat) = 8 + 8 from rfl, List.take_add, List.take_left' hmagl, List.drop_left' hmagl,
      List.drop_left' hmagl, List.take_left' hoe]
  have i_pp : slice ic 16 ic.length = .ok pp := by
    rw [slice_suffix ic 16 (by omega), ← hic, List.drop_left' (by simp [hmagl, hoe])]
  have huse : (if bip38_EncryptIntermediateCode_1
        (call_bytes_Equal_intermediateCode_8_intermediateCodeMagicBytesLotSequence := (magic == magicLot)) then
        (Outcome.ok true : Outcome Bool)
      else if bip38_EncryptIntermediateCode_2
        (call_bytes_Equal_intermediateCode_8_intermediateCodeMagicBytes := (magic == magicPlain)) then .ok false
      else .err) = .ok useLot := by
    rw [← hmagic]
    cases useLot
    · have : (magicPlain == magicLot) = false := by simpa using fun h => hmne h.symm
      simp [bip38_EncryptIntermediateCode_1, bip38_EncryptIntermediateCode_2, this]
    · simp [bip38_EncryptIntermediateCode_1]
  -- the values computed by the encryption
  generalize hfb : P.dsha256 seedb = fb at *
  generalize hah : (P.dsha256 addr).take 4 = ah
  have hahl : ah.length = 4 := by rw [← hah]; simp [g.dsha_len]
  have s_ah : slice (P.dsha256 addr) 0 4 = .ok ah := by
    rw [slice_prefix _ 4 (by rw [g.dsha_len]; decide), hah]
  generalize hkey : P.scrypt pp (ah ++ oe) 1024 1 1 64 = sk
  have hskl : sk.length = 64 := by rw [← hkey]; exact g.scrypt_len _ _ _ _ _ _
  have s_dk1 : slice sk 0 32 = .ok (sk.take 32) := slice_prefix _ _ (by omega)
  have s_dk2 : slice sk 32 sk.length = .ok (sk.drop 32) := slice_suffix _ _ (by omega)
  generalize hdk1 : sk.take 32 = dk1 at *
  generalize hdk2 : sk.drop 32 = dk2 at *
  have hdk1l : dk1.length = 32 := by rw [← hdk1]; simp; omega
  have s_s016 : slice seedb 0 16 = .ok (seedb.take 16) := slice_prefix _ _ (by omega)
  have s_s16 : slice seedb 16 seedb.length = .ok (seedb.drop 16) := slice_suffix _ _ (by omega)
  have s_k016 : slice dk1 0 16 = .ok (dk1.take 16) := slice_prefix _ _ (by omega)
  have s_k16 : slice dk1 16 dk1.length = .ok (dk1.drop 16) := slice_suffix _ _ (by omega)
  have s_k1624 : slice dk1 16 24 = .ok ((dk1.drop 16).take 8) := by
    rw [slice_ok dk1 16 24 (by decide) (by omega), show (24 : Nat) = 16 + 8 from rfl, List.take_add,
      List.drop_left' (by simp; omega)]
  have s_k24 : slice dk1 24 dk1.length = .ok ((dk1.drop 16).drop 8) := by
    rw [slice_suffix dk1 24 (by omega), List.drop_drop]
  generalize hka : dk1.take 16 = ka at *
  generalize hkb : dk1.drop 16 = kb at *
  have hkal : ka.length = 16 := by rw [← hka]; simp; omega
  have hkbl : kb.length = 16 := by rw [← hkb]; simp; omega
  have hs1l : (seedb.take 16).length = 16 := by simp; omega
  have hs2l : (seedb.drop 16).length = 8 := by simp; omega
  have x1 := xorBytes_ok (seedb.take 16) ka (by omega)
  generalize he1 : P.aesEnc dk2 (List.zipWith (· ^^^ ·) (seedb.take 16) ka) = e1 at *
  have he1l : e1.length = 16 := by rw [← he1]; exact g.aes_len _ _ (by simp; omega)
  have s_e1t : slice e1 8 e1.length = .ok (e1.drop 8) := slice_suffix _ _ (by omega)
  have s_e1h : slice e1 0 8 = .ok (e1.take 8) := slice_prefix _ _ (by omega)
  have hv : (e1.drop 8 ++ seedb.drop 16).length = 16 := by simp; omega
  have x2 := xorBytes_ok (e1.drop 8 ++ seedb.drop 16) kb (by omega)
  generalize he2 : P.aesEnc dk2 (List.zipWith (· ^^^ ·) (e1.drop 8 ++ seedb.drop 16) kb) = e2 at *
  have he2l : e2.length = 16 := by rw [← he2]; exact g.aes_len _ _ (by simp; omega)
  have henc : encryptIntermediateCode P seedb (Base58Check.encode P.cksum ic) c =
      .ok (Base58Check.encode P.cksum
        ([0x01, 0x43] ++ [encodeFlagByte c true useLot] ++ ah ++ oe ++ e1.take 8 ++ e2)) := by
    unfold encryptIntermediateCode
    rw [Proofs.Base58.Check.decode_encode P.cksum g.ck_len ic]
    have hg : bip38_EncryptIntermediateCode_0 (len_intermediateCode := ic.length) = false := by
      simp [bip38_EncryptIntermediateCode_0, hicl]
    have hrl : ¬ seedb.length < 24 := by omega
    have htk : seedb.take 24 = seedb := List.take_of_length_le (by omega)
    simp only [hg, Bool.false_eq_true, if_false, i_magic, Outcome.bind_ok, huse, i_oe, i_pp, hrl, htk, hfb,
      hpub, haddr, s_ah, hkey, s_dk1, s_dk2, s_s016, s_s16, s_k016, s_k16, x1, he1, s_e1t, s_e1h, x2, he2,
      Outcome.pure_eq, prefixBytes, bip38_prefixBytes_0]
    simp
  refine ⟨_, henc, ?_⟩
  -- decryption
  obtain ⟨hl, h0, h1, h2, l37, l715, l1523, l23⟩ :=
    layout39ec (encodeFlagByte c true useLot) ah oe (e1.take 8) e2 hahl hoe (by simp; omega) he2l
  generalize hd : [0x01, 0x43] ++ [encodeFlagByte c true useLot] ++ ah ++ oe ++ e1.take 8 ++ e2 = d at *
  unfold decrypt
  rw [Proofs.Base58.Check.decode_encode P.cksum g.ck_len d]
  have hg0 : bip38_Decrypt_0 (len_decodedEncryptedKey := d.length) = false := by simp [bip38_Decrypt_0, hl]
  simp only [hg0, Bool.false_eq_true, if_false, h0, h1]
  have hg1 : bip38_Decrypt_1 (decodedEncryptedKey_0 := (1 : UInt8).toNat) = false := by decide
  have hg2 : bip38_Decrypt_2 (decodedEncryptedKey_1 := (0x43 : UInt8).toNat) = true := by decide
  simp only [hg1, hg2, Bool.false_eq_true, if_false, if_true]
  obtain ⟨hf1, hf2, hf3⟩ := flag_ec c useLot
  -- the second half decrypts to (tail of the first ciphertext block ‖ tail of seedb) xor kb
  have hkbsplit : kb = kb.take 8 ++ kb.drop 8 := (List.take_append_drop 8 kb).symm
  have hzip : List.zipWith (· ^^^ ·) (e1.drop 8 ++ seedb.drop 16) kb =
      List.zipWith (· ^^^ ·) (e1.drop 8) (kb.take 8) ++ List.zipWith (· ^^^ ·) (seedb.drop 16) (kb.drop 8) := by
    conv => lhs; rw [hkbsplit]
    exact List.zipWith_append (by simp; omega)
  have hz1l : (List.zipWith (· ^^^ ·) (e1.drop 8) (kb.take 8)).length = 8 := by simp; omega
  have hkey' : ecKey P d pw useLot = .ok (P.mulModN fb pf) := by
    unfold ecKey
    have d2 : P.aesDec dk2 e2 = List.zipWith (· ^^^ ·) (e1.drop 8) (kb.take 8) ++
        List.zipWith (· ^^^ ·) (seedb.drop 16) (kb.drop 8) := by
      rw [← he2, g.aes_inv, hzip]
    have s_a : slice (P.aesDec dk2 e2) 0 8 = .ok (List.zipWith (· ^^^ ·) (e1.drop 8) (kb.take 8)) := by
      rw [d2, slice_prefix _ 8 (by simp; omega), List.take_left' hz1l]
    have s_b : slice (P.aesDec dk2 e2) 8 (P.aesDec dk2 e2).length =
        .ok (List.zipWith (· ^^^ ·) (seedb.drop 16) (kb.drop 8)) := by
      rw [d2, slice_suffix _ 8 (by simp; omega), List.drop_left' hz1l]
    have y1 : xorBytes (List.zipWith (· ^^^ ·) (e1.drop 8) (kb.take 8)) (kb.take 8) = .ok (e1.drop 8) := by
      rw [xorBytes_ok _ _ (by simp; omega), xor_cancel _ _ (by simp; omega)]
    have y2 : xorBytes (List.zipWith (· ^^^ ·) (seedb.drop 16) (kb.drop 8)) (kb.drop 8) = .ok (seedb.drop 16) := by
      rw [xorBytes_ok _ _ (by simp; omega), xor_cancel _ _ (by simp; omega)]
    have hfull : e1.take 8 ++ (e1.drop 8).take 8 = e1 := by
      have : (e1.drop 8).take 8 = e1.drop 8 := List.take_of_length_le (by simp; omega)
      rw [this, List.take_append_drop]
    have y3 : xorBytes (P.aesDec dk2 e1) ka = .ok (seedb.take 16) := by
      rw [← he1, g.aes_inv, xorBytes_ok _ _ (by simp; omega), xor_cancel _ _ (by omega)]
    have hseed : (seedb.take 16).take 16 ++ (seedb.drop 16).take 8 = seedb := by
      have a : (seedb.take 16).take 16 = seedb.take 16 := List.take_of_length_le (by simp; omega)
      have b : (seedb.drop 16).take 8 = seedb.drop 16 := List.take_of_length_le (by simp; omega)
      rw [a, b, List.take_append_drop]
    simp only [l37, l715, Outcome.bind_ok, hpf, hpp, hkey, s_dk1, s_dk2, l1523, l23, s_a, s_b, s_k1624, s_k24,
      y1, y2, s_k016, hfull, y3, hseed, hfb, Outcome.pure_eq]
  have hinner : decryptEC P d pw = .ok (P.mulModN fb pf, c) := by
    unfold decryptEC
    rw [h2]
    simp only [bip38_decryptECMult_0, hf1, ne_eq, not_true_eq_false, decide_false, Bool.false_eq_true,
      if_false, bip38_decryptECMult_asg1, hf3, hkey', Outcome.map, bip38_decryptECMult_asg0, hf2]
  rw [hinner]
  simp only
  unfold checkAddress deriveAddress
  simp only [hcomm, Outcome.bind_ok, haddr, l37, s_ah, bip38_Decrypt_4, BEq.rfl, Bool.not_true,
    Bool.false_eq_true, if_false]

/-- what `GenerateIntermediateCode` returns (reader bytes = the owner entropy) -/
theorem intermediateCode_eq (P : Prims) (oe pw pp : Bytes) (hoe : oe.length = 8)
    (hpp : P.baseMul (P.scrypt pw oe 16384 8 8 32) = .ok pp) :
    intermediateCode P oe pw = .ok (Base58Check.encode P.cksum (magicPlain ++ oe ++ pp)) ∧
    passFactorOf P false pw oe = .ok (P.scrypt pw oe 16384 8 8 32) := by
  constructor
  · unfold intermediateCode
    have : ¬ oe.length < 8 := by omega
    have ht : oe.take 8 = oe := List.take_of_length_le (by omega)
    simp only [this, if_false, ht, hpp, Outcome.bind_ok, Outcome.pure_eq]
  · simp [passFactorOf, bip38_decryptECMult_1]

/-- what `GenerateIntermediateCodeWithLotSequence` returns (reader bytes = the owner salt) -/
theorem intermediateCodeLot_eq (P : Prims) (salt pw pp : Bytes) (lot sequence : Nat) (hs : salt.length = 4)
    (hlot : lot ≤ 0xfffff) (hseq : sequence ≤ 0xfff)
    (hpp : P.baseMul (P.dsha256 (P.scrypt pw salt 16384 8 8 32 ++
      (salt ++ beBytes 4 ((lot <<< 12 + sequence) % 4294967296)))) = .ok pp) :
    let oe := salt ++ beBytes 4 ((lot <<< 12 + sequence) % 4294967296)
    intermediateCodeLot P salt pw lot sequence = .ok (Base58Check.encode P.cksum (magicLot ++ oe ++ pp)) ∧
    oe.length = 8 ∧
    passFactorOf P true pw oe = .ok (P.dsha256 (P.scrypt pw salt 16384 8 8 32 ++ oe)) := by
  intro oe
  have hg0 : bip38_encodeLotSequence_0 (lot := lot) = false := by
    simp only [bip38_encodeLotSequence_0, decide_eq_false_iff_not]; omega
  have hg1 : bip38_encodeLotSequence_1 (sequence := sequence) = false := by
    simp only [bip38_encodeLotSequence_1, decide_eq_false_iff_not]; omega
  have hoel : oe.length = 8 := by simp [oe, hs]
  refine ⟨?_, hoel, ?_⟩
  · unfold intermediateCodeLot encodeLotSequence
    have : ¬ salt.length < 4 := by omega
    have ht : salt.take 4 = salt := List.take_of_length_le (by omega)
    simp only [hg0, hg1, Bool.false_eq_true, if_false, Outcome.bind_ok, this, ht, hpp, Outcome.pure_eq]
    rfl
  · unfold passFactorOf
    have hsl : slice oe 0 4 = .ok salt := by
      rw [slice_prefix oe 4 (by omega)]
      simp only [oe]
      rw [List.take_left' hs]
    simp only [bip38_decryptECMult_1, if_true, hsl, Outcome.bind_ok, Outcome.pure_eq]

end BtcVerif.Proofs.Bip38
