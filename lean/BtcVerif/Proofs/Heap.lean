import BtcVerif.Model.Heap

namespace BtcVerif.Model.Heap
open BtcVerif BtcVerif.Model

/-- the objects at addresses below the watermarks are the same in `h'` as in `h` -/
def Pres (n m : Nat) (h h' : Heap) : Prop :=
  (∀ a, a < n → h'.ins[a]? = h.ins[a]?) ∧ (∀ a, a < m → h'.outs[a]? = h.outs[a]?)

theorem Pres.refl (n m : Nat) (h : Heap) : Pres n m h h := ⟨fun _ _ => rfl, fun _ _ => rfl⟩

theorem Pres.trans {n m : Nat} {h1 h2 h3 : Heap} (a : Pres n m h1 h2) (b : Pres n m h2 h3) : Pres n m h1 h3 :=
  ⟨fun x hx => (b.1 x hx).trans (a.1 x hx), fun x hx => (b.2 x hx).trans (a.2 x hx)⟩

theorem modIn_pres {n m : Nat} (h : Heap) (a : Addr) (f : TxIn → TxIn) (ha : n ≤ a) : Pres n m h (modIn h a f) := by
  refine ⟨fun x hx => ?_, fun _ _ => rfl⟩
  simp only [modIn, List.getElem?_modify]
  have : a ≠ x := Nat.ne_of_gt (Nat.lt_of_lt_of_le hx ha)
  simp [this]

theorem modOut_pres {n m : Nat} (h : Heap) (a : Addr) (f : TxOut → TxOut) (ha : m ≤ a) : Pres n m h (modOut h a f) := by
  refine ⟨fun _ _ => rfl, fun x hx => ?_⟩
  simp only [modOut, List.getElem?_modify]
  have : a ≠ x := Nat.ne_of_gt (Nat.lt_of_lt_of_le hx ha)
  simp [this]

/-- `cloneIns` only appends input objects, leaves the outputs alone, and returns addresses that are
    all at or above the length the heap had before -/
theorem cloneIns_spec (h : Heap) (as : List Addr) :
    (∃ suf, (cloneIns h as).1.ins = h.ins ++ suf) ∧ (cloneIns h as).1.outs = h.outs ∧
    ∀ b ∈ (cloneIns h as).2, h.ins.length ≤ b := by
  induction as generalizing h with
  | nil => exact ⟨⟨[], by simp [cloneIns]⟩, rfl, by simp [cloneIns]⟩
  | cons a as ih =>
    unfold cloneIns
    cases hget : h.ins[a]? with
    | some o =>
      obtain ⟨⟨suf, hs⟩, ho, hb⟩ := ih { h with ins := h.ins ++ [o] }
      refine ⟨⟨[o] ++ suf, by simp [hs]⟩, by simp [ho], ?_⟩
      intro b hbm
      simp only [List.mem_cons] at hbm
      rcases hbm with rfl | hbm
      · exact Nat.le_refl _
      · have := hb b hbm
        simp at this
        omega
    | none =>
      obtain ⟨hs, ho, hb⟩ := ih h
      refine ⟨hs, ho, ?_⟩
      intro b hbm
      simp only [List.mem_cons] at hbm
      rcases hbm with rfl | hbm
      · exact (List.getElem?_eq_none_iff.mp hget)
      · exact hb b hbm

theorem cloneOuts_spec (h : Heap) (as : List Addr) :
    (∃ suf, (cloneOuts h as).1.outs = h.outs ++ suf) ∧ (cloneOuts h as).1.ins = h.ins ∧
    ∀ b ∈ (cloneOuts h as).2, h.outs.length ≤ b := by
  induction as generalizing h with
  | nil => exact ⟨⟨[], by simp [cloneOuts]⟩, rfl, by simp [cloneOuts]⟩
  | cons a as ih =>
    unfold cloneOuts
    cases hget : h.outs[a]? with
    | some o =>
      obtain ⟨⟨suf, hs⟩, ho, hb⟩ := ih { h with outs := h.outs ++ [o] }
      refine ⟨⟨[o] ++ suf, by simp [hs]⟩, by simp [ho], ?_⟩
      intro b hbm
      simp only [List.mem_cons] at hbm
      rcases hbm with rfl | hbm
      · exact Nat.le_refl _
      · have := hb b hbm
        simp at this
        omega
    | none =>
      obtain ⟨hs, ho, hb⟩ := ih h
      refine ⟨hs, ho, ?_⟩
      intro b hbm
      simp only [List.mem_cons] at hbm
      rcases hbm with rfl | hbm
      · exact (List.getElem?_eq_none_iff.mp hget)
      · exact hb b hbm

theorem pres_of_append {n m : Nat} {h h' : Heap} (hn : n ≤ h.ins.length) (hm : m ≤ h.outs.length)
    (hi : ∃ suf, h'.ins = h.ins ++ suf) (ho : ∃ suf, h'.outs = h.outs ++ suf) : Pres n m h h' := by
  obtain ⟨s1, e1⟩ := hi
  obtain ⟨s2, e2⟩ := ho
  refine ⟨fun a ha => ?_, fun a ha => ?_⟩
  · rw [e1, List.getElem?_append_left (by omega)]
  · rw [e2, List.getElem?_append_left (by omega)]

theorem blankOthersFrom_pres {n m : Nat} (nIn : Nat) (z : Bool) (h : Heap) (i : Nat) (as : List Addr)
    (hge : ∀ b ∈ as, n ≤ b) : Pres n m h (blankOthersFrom nIn z h i as) := by
  induction as generalizing h i with
  | nil => exact Pres.refl _ _ _
  | cons a as ih =>
    unfold blankOthersFrom
    refine Pres.trans ?_ (ih _ _ (fun b hb => hge b (by simp [hb])))
    split
    · exact modIn_pres h a _ (hge a (by simp))
    · exact Pres.refl _ _ _

theorem blankOthers_pres {n m : Nat} (h : Heap) (as : List Addr) (nIn : Nat) (z : Bool)
    (hge : ∀ b ∈ as, n ≤ b) : Pres n m h (blankOthers h as nIn z) :=
  blankOthersFrom_pres nIn z h 0 as hge

theorem blankBefore_pres {n m : Nat} (h : Heap) (as : List Addr) (nIn : Nat)
    (hge : ∀ b ∈ as, m ≤ b) : Pres n m h (blankBefore h as nIn) := by
  unfold blankBefore
  have hge' : ∀ b ∈ as.take nIn, m ≤ b := fun b hb => hge b (List.mem_of_mem_take hb)
  generalize as.take nIn = l at hge'
  induction l generalizing h with
  | nil => exact Pres.refl _ _ _
  | cons a l ih =>
    simp only [List.foldl_cons]
    exact Pres.trans (modOut_pres h a _ (hge' a (by simp))) (ih _ (fun b hb => hge' b (by simp [hb])))

theorem setScriptAt_pres {n m : Nat} (h : Heap) (ins : List Addr) (nIn : Nat) (sc : Bytes)
    (hge : ∀ b ∈ ins, n ≤ b) : Pres n m h (setScriptAt h ins nIn sc) := by
  unfold setScriptAt
  cases hg : ins[nIn]? with
  | none => exact Pres.refl _ _ _
  | some a => exact modIn_pres h a _ (hge a (List.mem_of_getElem? hg))

theorem keptOuts_mem {outs : List Addr} {nIn : Nat} {none single : Bool} {b : Addr}
    (hb : b ∈ keptOuts outs nIn none single) : b ∈ outs := by
  unfold keptOuts at hb
  split at hb
  · cases hb
  · split at hb
    · exact List.mem_of_mem_take hb
    · exact hb

/-- **Frame theorem.** Whatever the transaction, the index, the script code and the flags: every
    object that existed before `SignatureHashForInput` ran is unchanged afterwards. -/
theorem legacyRun_frame (h : Heap) (tx : TxObj) (nIn : Nat) (sc : Bytes) (none single acp : Bool) :
    Pres h.ins.length h.outs.length h (legacyRun h tx nIn sc none single acp).1 := by
  obtain ⟨hi1, ho1, hb1⟩ := cloneIns_spec h tx.inputs
  obtain ⟨ho2, hi2, hb2⟩ := cloneOuts_spec (cloneIns h tx.inputs).1 tx.outputs
  have p2 : Pres h.ins.length h.outs.length h (cloneOuts (cloneIns h tx.inputs).1 tx.outputs).1 := by
    apply pres_of_append (Nat.le_refl _) (Nat.le_refl _)
    · rw [hi2]; exact hi1
    · obtain ⟨s, e⟩ := ho2; exact ⟨s, by rw [e, ho1]⟩
  have hb2' : ∀ b ∈ (cloneOuts (cloneIns h tx.inputs).1 tx.outputs).2, h.outs.length ≤ b := by
    intro b hb; have := hb2 b hb; rw [ho1] at this; exact this
  have p3 := Pres.trans p2 (setScriptAt_pres (n := h.ins.length) (m := h.outs.length)
    (cloneOuts (cloneIns h tx.inputs).1 tx.outputs).1 (cloneIns h tx.inputs).2 nIn sc hb1)
  have p4 : Pres h.ins.length h.outs.length h
      (if acp = true then setScriptAt (cloneOuts (cloneIns h tx.inputs).1 tx.outputs).1 (cloneIns h tx.inputs).2 nIn sc
       else blankOthers (setScriptAt (cloneOuts (cloneIns h tx.inputs).1 tx.outputs).1 (cloneIns h tx.inputs).2 nIn sc)
              (cloneIns h tx.inputs).2 nIn (none || single)) := by
    split
    · exact p3
    · exact Pres.trans p3 (blankOthers_pres _ _ nIn _ hb1)
  show Pres _ _ h (if (!none && single) = true then blankBefore _ _ nIn else _)
  split
  · exact Pres.trans p4 (blankBefore_pres _ _ nIn (fun b hb => hb2' b (keptOuts_mem hb)))
  · exact p4

theorem readAll_congr {α} (f g : Addr → Option α) (as : List Addr) (h : ∀ a ∈ as, f a = g a) :
    readAll f as = readAll g as := by
  induction as with
  | nil => rfl
  | cons a as ih =>
    simp only [readAll, h a (by simp), ih (fun b hb => h b (by simp [hb]))]

/-- Corollary at the level of values: the transaction a caller's `*Tx` denotes is the same before and
    after, provided its pointers pointed into the heap (were not nil) before. -/
theorem legacyRun_readTx (h : Heap) (tx : TxObj) (nIn : Nat) (sc : Bytes) (none single acp : Bool)
    (hin : ∀ a ∈ tx.inputs, a < h.ins.length) (hout : ∀ a ∈ tx.outputs, a < h.outs.length) :
    readTx (legacyRun h tx nIn sc none single acp).1 tx = readTx h tx := by
  obtain ⟨pi, po⟩ := legacyRun_frame h tx nIn sc none single acp
  unfold readTx
  rw [readAll_congr _ (fun a => h.ins[a]?) tx.inputs (fun a ha => pi a (hin a ha)),
      readAll_congr _ (fun a => h.outs[a]?) tx.outputs (fun a ha => po a (hout a ha))]

/-- The hypothesis that the copy is deep is used: with outputs shared between the original and the
    working copy (the seeded change C03-B) SIGHASH_SINGLE on input 1 overwrites the caller's output 0. -/
theorem shallow_clone_breaks_frame :
    ∃ (h : Heap) (tx : TxObj),
      (legacyRunWith cloneOutsShallow h tx 1 [] false true false).1.outs[0]? ≠ h.outs[0]? := by
  refine ⟨⟨[default, default], [⟨5, [0x51]⟩, ⟨7, [0x52]⟩]⟩, ⟨1, [0, 1], [0, 1], false, 0⟩, ?_⟩
  decide

end BtcVerif.Model.Heap

/-! ### refinement: the objects of the working copy, read back, are the modified transaction of the
    value-level model (Model/SigHash.lean) -/

namespace BtcVerif.Model.Heap
open BtcVerif BtcVerif.Model

/-- the value-level surgery on the inputs (the shape of `Model.legacyPre`, flags as plain booleans) -/
def insV (is : List TxIn) (nIn : Nat) (sc : Bytes) (zeroSeq acp : Bool) : List TxIn :=
  let is1 := is.modify nIn (fun o => { o with script := sc })
  if acp then (is1.drop nIn).take 1
  else is1.mapIdx fun i vin => if i ≠ nIn then { vin with script := [], sequence := if zeroSeq then 0 else vin.sequence } else vin

/-- the value-level surgery on the outputs -/
def outsV (os : List TxOut) (nIn : Nat) (none single : Bool) : List TxOut :=
  if none then [] else if single then
    (os.take (nIn + 1)).mapIdx fun i o => if i < nIn then { value := 0xffffffffffffffff, script := [] } else o
  else os

theorem readAll_range' {α} (base vals : List α) (k : Nat) (hk : k ≤ vals.length) (s : Nat) (hs : s + k ≤ vals.length) :
    readAll (fun a => (base ++ vals)[a]?) (List.range' (base.length + s) k) = some ((vals.drop s).take k) := by
  induction k generalizing s with
  | zero => simp [readAll]
  | succ k ih =>
    have h1 : (base ++ vals)[base.length + s]? = vals[s]? := by
      rw [List.getElem?_append_right (by omega)]; congr 1; omega
    have hlt : s < vals.length := by omega
    simp only [List.range'_succ, readAll, h1, List.getElem?_eq_getElem hlt]
    have := ih (by omega) (s + 1) (by omega)
    rw [show base.length + s + 1 = base.length + (s + 1) by omega, this]
    simp only
    congr 1
    rw [List.drop_eq_getElem_cons hlt, List.take_succ_cons]

/-- cloning pointers that all point into the heap appends exactly the objects they point to and
    returns consecutive fresh addresses -/
theorem cloneIns_valid (h : Heap) (as : List Addr) (is : List TxIn)
    (hr : readAll (fun a => h.ins[a]?) as = some is) :
    (cloneIns h as).1.ins = h.ins ++ is ∧ (cloneIns h as).1.outs = h.outs ∧
    (cloneIns h as).2 = List.range' h.ins.length as.length ∧ is.length = as.length := by
  induction as generalizing h is with
  | nil => simp [readAll] at hr; subst hr; simp [cloneIns]
  | cons a as ih =>
    simp only [readAll] at hr
    cases hg : h.ins[a]? with
    | none => simp [hg] at hr
    | some o =>
      cases hrest : readAll (fun a => h.ins[a]?) as with
      | none => simp [hg, hrest] at hr
      | some is' =>
        simp [hg, hrest] at hr
        subst hr
        -- the remaining pointers read the same objects in the extended heap
        have hrest' : readAll (fun a => ({ h with ins := h.ins ++ [o] } : Heap).ins[a]?) as = some is' := by
          rw [← hrest]
          apply readAll_congr
          intro b hb
          have hb' : (h.ins[b]?).isSome := by
            -- every pointer of a successful readAll is valid
            clear ih hg
            induction as generalizing is' with
            | nil => cases hb
            | cons c cs ihc =>
              simp only [readAll] at hrest
              cases hc : h.ins[c]? with
              | none => simp [hc] at hrest
              | some oc =>
                cases hcs : readAll (fun a => h.ins[a]?) cs with
                | none => simp [hc, hcs] at hrest
                | some ics =>
                  simp only [List.mem_cons] at hb
                  rcases hb with rfl | hb
                  · simp [hc]
                  · exact ihc ics hcs hb
          have hlt : b < h.ins.length := by
            cases hq : h.ins[b]? with
            | none => simp [hq] at hb'
            | some _ => exact (List.getElem?_eq_some_iff.mp hq).1
          simp [List.getElem?_append_left hlt]
        obtain ⟨e1, e2, e3, e4⟩ := ih { h with ins := h.ins ++ [o] } is' hrest'
        unfold cloneIns
        simp only [hg]
        refine ⟨by simp [e1], by simp [e2], ?_, by simp [e4]⟩
        simp [e3, List.range'_succ]

end BtcVerif.Model.Heap

namespace BtcVerif.Model.Heap
open BtcVerif BtcVerif.Model

theorem modify_append_right' {α} (base vals : List α) (i : Nat) (f : α → α) :
    (base ++ vals).modify (base.length + i) f = base ++ vals.modify i f := by
  apply List.ext_getElem?
  intro x
  simp only [List.getElem?_modify]
  by_cases hx : x < base.length
  · have : base.length + i ≠ x := by omega
    simp [this, List.getElem?_append_left hx]
  · have hx' : base.length ≤ x := by omega
    rw [List.getElem?_append_right hx', List.getElem?_append_right hx', List.getElem?_modify]
    by_cases he : base.length + i = x
    · have h2 : base.length + (x - base.length) = x := by omega
      have : i = x - base.length := by omega
      simp [this, h2]
    · have : i ≠ x - base.length := by omega
      simp [he, this]

/-- `g j`, `g (j+1)`, … applied at positions `j`, `j+1`, …, `j+k-1` -/
def applyFrom {α} (g : Nat → α → α) : List α → Nat → Nat → List α
  | vals, _, 0 => vals
  | vals, j, k + 1 => applyFrom g (vals.modify j (g j)) (j + 1) k

theorem applyFrom_get {α} (g : Nat → α → α) (vals : List α) (j k x : Nat) :
    (applyFrom g vals j k)[x]? = if j ≤ x ∧ x < j + k then (vals[x]?).map (g x) else vals[x]? := by
  induction k generalizing vals j with
  | zero => simp [applyFrom]; intro h1 h2; omega
  | succ k ih =>
    unfold applyFrom
    rw [ih]
    simp only [List.getElem?_modify]
    by_cases hjx : j = x
    · subst hjx
      have : ¬ (j + 1 ≤ j ∧ j < j + 1 + k) := by omega
      simp [this]
    · by_cases hr : j + 1 ≤ x ∧ x < j + 1 + k
      · have : j ≤ x ∧ x < j + (k + 1) := by omega
        simp [hr, this, hjx]
      · have : ¬ (j ≤ x ∧ x < j + (k + 1)) := by omega
        simp [hr, this, hjx]

theorem applyFrom_mapIdx {α} (g : Nat → α → α) (vals : List α) :
    applyFrom g vals 0 vals.length = vals.mapIdx g := by
  apply List.ext_getElem?
  intro x
  rw [applyFrom_get, List.getElem?_mapIdx]
  by_cases hx : x < vals.length
  · simp [hx]
  · have : vals[x]? = none := List.getElem?_eq_none_iff.mpr (by omega)
    simp [hx, this]

def blankG (nIn : Nat) (z : Bool) (i : Nat) (o : TxIn) : TxIn :=
  if i ≠ nIn then { o with script := [], sequence := if z then 0 else o.sequence } else o

theorem blankOthersFrom_range (nIn : Nat) (z : Bool) (base vals : List TxIn) (outs : List TxOut) (j k : Nat) :
    blankOthersFrom nIn z ⟨base ++ vals, outs⟩ j (List.range' (base.length + j) k) =
      ⟨base ++ applyFrom (blankG nIn z) vals j k, outs⟩ := by
  induction k generalizing vals j with
  | zero => simp [blankOthersFrom, applyFrom]
  | succ k ih =>
    simp only [List.range'_succ, blankOthersFrom, applyFrom]
    have step : (if j ≠ nIn then modIn ⟨base ++ vals, outs⟩ (base.length + j)
          (fun o => { o with script := [], sequence := if z = true then 0 else o.sequence }) else ⟨base ++ vals, outs⟩)
        = ⟨base ++ vals.modify j (blankG nIn z j), outs⟩ := by
      by_cases hj : j = nIn
      · subst hj
        have : blankG j z j = id := by funext o; simp [blankG]
        simp [this]
      · have : blankG nIn z j = fun o => { o with script := [], sequence := if z = true then 0 else o.sequence } := by
          funext o; simp [blankG, hj]
        simp [hj, modIn, modify_append_right', this]
    rw [step, show base.length + j + 1 = base.length + (j + 1) by omega, ih]

end BtcVerif.Model.Heap

namespace BtcVerif.Model.Heap
open BtcVerif BtcVerif.Model

theorem readAll_isSome_valid {α} (l : List α) (as : List Addr) (r : List α)
    (h : readAll (fun a => l[a]?) as = some r) : ∀ b ∈ as, b < l.length := by
  induction as generalizing r with
  | nil => intro b hb; cases hb
  | cons c cs ih =>
    simp only [readAll] at h
    cases hc : l[c]? with
    | none => simp [hc] at h
    | some oc =>
      cases hcs : readAll (fun a => l[a]?) cs with
      | none => simp [hc, hcs] at h
      | some ics =>
        intro b hb
        simp only [List.mem_cons] at hb
        rcases hb with rfl | hb
        · exact (List.getElem?_eq_some_iff.mp hc).1
        · exact ih ics hcs b hb

theorem cloneOuts_valid (h : Heap) (as : List Addr) (os : List TxOut)
    (hr : readAll (fun a => h.outs[a]?) as = some os) :
    (cloneOuts h as).1.outs = h.outs ++ os ∧ (cloneOuts h as).1.ins = h.ins ∧
    (cloneOuts h as).2 = List.range' h.outs.length as.length ∧ os.length = as.length := by
  induction as generalizing h os with
  | nil => simp [readAll] at hr; subst hr; simp [cloneOuts]
  | cons a as ih =>
    simp only [readAll] at hr
    cases hg : h.outs[a]? with
    | none => simp [hg] at hr
    | some o =>
      cases hrest : readAll (fun a => h.outs[a]?) as with
      | none => simp [hg, hrest] at hr
      | some os' =>
        simp [hg, hrest] at hr
        subst hr
        have hv := readAll_isSome_valid h.outs as os' hrest
        have hrest' : readAll (fun a => ({ h with outs := h.outs ++ [o] } : Heap).outs[a]?) as = some os' := by
          rw [← hrest]
          apply readAll_congr
          intro b hb
          simp [List.getElem?_append_left (hv b hb)]
        obtain ⟨e1, e2, e3, e4⟩ := ih { h with outs := h.outs ++ [o] } os' hrest'
        unfold cloneOuts
        simp only [hg]
        refine ⟨by simp [e1], by simp [e2], ?_, by simp [e4]⟩
        simp [e3, List.range'_succ]

def blankOut : TxOut := { value := 0xffffffffffffffff, script := [] }

theorem foldl_modOut_range (ins : List TxIn) (base vals : List TxOut) (j k : Nat) :
    (List.range' (base.length + j) k).foldl (fun h a => modOut h a (fun _ => blankOut)) ⟨ins, base ++ vals⟩ =
      ⟨ins, base ++ applyFrom (fun _ _ => blankOut) vals j k⟩ := by
  induction k generalizing vals j with
  | zero => simp [applyFrom]
  | succ k ih =>
    simp only [List.range'_succ, List.foldl_cons, applyFrom]
    have : modOut ⟨ins, base ++ vals⟩ (base.length + j) (fun _ => blankOut) = ⟨ins, base ++ vals.modify j (fun _ => blankOut)⟩ := by
      simp [modOut, modify_append_right']
    rw [this, show base.length + j + 1 = base.length + (j + 1) by omega, ih]

theorem applyFrom_length {α} (g : Nat → α → α) (vals : List α) (j k : Nat) :
    (applyFrom g vals j k).length = vals.length := by
  induction k generalizing vals j with
  | zero => rfl
  | succ k ih => unfold applyFrom; rw [ih]; simp

theorem readAll_range'_take {α} (base vals : List α) (k s : Nat) (hs : k = 0 ∨ s + k ≤ vals.length) :
    readAll (fun a => (base ++ vals)[a]?) (List.range' (base.length + s) k) = some ((vals.drop s).take k) := by
  rcases hs with rfl | hs
  · simp [readAll]
  · exact readAll_range' base vals k (by omega) s hs

/-- **Refinement.** If the caller's pointers are valid and denote the inputs `is` and outputs `os`, the
    working copy after the surgery denotes exactly the modified transaction of the value-level model:
    script code installed at `nIn`, the other inputs blanked (or dropped with ANYONECANPAY), outputs
    dropped / cut / blanked for NONE / SINGLE. -/
theorem legacyRun_refines (h : Heap) (tx : TxObj) (nIn : Nat) (sc : Bytes) (none single acp : Bool)
    (is : List TxIn) (os : List TxOut) (hr : readTx h tx = some (is, os)) :
    readTx (legacyRun h tx nIn sc none single acp).1 (legacyRun h tx nIn sc none single acp).2
      = some (insV is nIn sc (none || single) acp, outsV os nIn none single) := by
  -- split the hypothesis
  have hri : readAll (fun a => h.ins[a]?) tx.inputs = some is := by
    unfold readTx at hr
    cases h1 : readAll (fun a => h.ins[a]?) tx.inputs <;> cases h2 : readAll (fun a => h.outs[a]?) tx.outputs <;>
      simp [h1, h2] at hr
    exact congrArg some hr.1
  have hro : readAll (fun a => h.outs[a]?) tx.outputs = some os := by
    unfold readTx at hr
    cases h1 : readAll (fun a => h.ins[a]?) tx.inputs <;> cases h2 : readAll (fun a => h.outs[a]?) tx.outputs <;>
      simp [h1, h2] at hr
    exact congrArg some hr.2
  obtain ⟨ci1, ci2, ci3, ci4⟩ := cloneIns_valid h tx.inputs is hri
  have hro' : readAll (fun a => (cloneIns h tx.inputs).1.outs[a]?) tx.outputs = some os := by rw [ci2]; exact hro
  obtain ⟨co1, co2, co3, co4⟩ := cloneOuts_valid (cloneIns h tx.inputs).1 tx.outputs os hro'
  rw [ci2] at co1 co3
  rw [ci1] at co2
  -- the heap after the two clones
  have hc : (cloneOuts (cloneIns h tx.inputs).1 tx.outputs).1 = ⟨h.ins ++ is, h.outs ++ os⟩ := by
    cases hcc : (cloneOuts (cloneIns h tx.inputs).1 tx.outputs).1 with
    | mk a b => rw [hcc] at co1 co2; simp at co1 co2; rw [co1, co2]
  -- step 3: the script code
  have h3 : setScriptAt ⟨h.ins ++ is, h.outs ++ os⟩ (List.range' h.ins.length tx.inputs.length) nIn sc
      = ⟨h.ins ++ is.modify nIn (fun o => { o with script := sc }), h.outs ++ os⟩ := by
    unfold setScriptAt
    by_cases hn : nIn < tx.inputs.length
    · have : (List.range' h.ins.length tx.inputs.length)[nIn]? = some (h.ins.length + nIn) := by
        simp [List.getElem?_range', hn]
      simp [this, modIn, modify_append_right']
    · have : (List.range' h.ins.length tx.inputs.length)[nIn]? = Option.none := by
        simp [List.getElem?_range', hn]
      have hm : is.modify nIn (fun o => { o with script := sc }) = is := by
        apply List.ext_getElem?
        intro x
        simp only [List.getElem?_modify]
        by_cases hx : nIn = x
        · subst hx
          have : is[nIn]? = Option.none := List.getElem?_eq_none_iff.mpr (by omega)
          simp [this]
        · simp [hx]
      simp [this, hm]
  unfold legacyRun legacyRunWith readTx
  simp only [ci3, co3, hc, h3]
  -- abbreviations
  generalize hI1 : is.modify nIn (fun o => { o with script := sc }) = is1
  have hI1len : is1.length = tx.inputs.length := by rw [← hI1]; simp [ci4]
  -- inputs after step 4
  have h4 : (if acp = true then (⟨h.ins ++ is1, h.outs ++ os⟩ : Heap)
              else blankOthers ⟨h.ins ++ is1, h.outs ++ os⟩ (List.range' h.ins.length tx.inputs.length) nIn (none || single))
      = ⟨h.ins ++ (if acp = true then is1 else is1.mapIdx (blankG nIn (none || single))), h.outs ++ os⟩ := by
    split
    · rfl
    · unfold blankOthers
      have := blankOthersFrom_range nIn (none || single) h.ins is1 (h.outs ++ os) 0 tx.inputs.length
      simp only [Nat.add_zero] at this
      rw [this, ← hI1len, applyFrom_mapIdx]
  rw [h4]
  generalize hI2 : (if acp = true then is1 else is1.mapIdx (blankG nIn (none || single))) = is2
  have hI2len : is2.length = tx.inputs.length := by
    rw [← hI2]; split <;> simp [hI1len]
  -- outputs after step 5
  have hk : keptOuts (List.range' h.outs.length tx.outputs.length) nIn none single
      = List.range' h.outs.length (if none = true then 0 else if single = true then min (nIn + 1) tx.outputs.length else tx.outputs.length) := by
    unfold keptOuts
    split
    · simp
    · split
      · by_cases hle : nIn + 1 ≤ tx.outputs.length
        · rw [List.take_range'_of_length_ge hle, Nat.min_eq_left hle]
        · rw [List.take_range'_of_length_le (by omega), Nat.min_eq_right (by omega)]
      · rfl
  rw [hk]
  generalize hK : (if none = true then 0 else if single = true then min (nIn + 1) tx.outputs.length else tx.outputs.length) = K
  have hKle : K ≤ os.length := by
    rw [← hK, co4]; split
    · omega
    · split
      · exact Nat.min_le_right _ _
      · exact Nat.le_refl _
  have h5 : (if (!none && single) = true then blankBefore ⟨h.ins ++ is2, h.outs ++ os⟩ (List.range' h.outs.length K) nIn
              else (⟨h.ins ++ is2, h.outs ++ os⟩ : Heap))
      = ⟨h.ins ++ is2, h.outs ++ (if (!none && single) = true then applyFrom (fun _ _ => blankOut) os 0 (min nIn K) else os)⟩ := by
    split
    · unfold blankBefore
      have ht : (List.range' h.outs.length K).take nIn = List.range' (h.outs.length + 0) (min nIn K) := by
        by_cases hle : nIn ≤ K
        · rw [List.take_range'_of_length_ge hle, Nat.min_eq_left hle]; simp
        · rw [List.take_range'_of_length_le (by omega), Nat.min_eq_right (by omega)]; simp
      rw [ht]
      exact foldl_modOut_range (h.ins ++ is2) h.outs os 0 (min nIn K)
    · rfl
  rw [h5]
  generalize hO2 : (if (!none && single) = true then applyFrom (fun _ _ => blankOut) os 0 (min nIn K) else os) = os2
  have hO2len : os2.length = os.length := by
    rw [← hO2]; split
    · exact applyFrom_length _ _ _ _
    · rfl
  -- read the inputs of the working copy
  have rI : readAll (fun a => (h.ins ++ is2)[a]?)
      (if acp = true then List.take 1 (List.drop nIn (List.range' h.ins.length tx.inputs.length)) else List.range' h.ins.length tx.inputs.length)
      = some (insV is nIn sc (none || single) acp) := by
    unfold insV
    simp only [hI1]
    split
    · rename_i hacp
      simp only [hacp, ↓reduceIte] at hI2
      subst hI2
      rw [List.drop_range', Nat.mul_one]
      by_cases hn : nIn < tx.inputs.length
      · rw [List.take_range'_of_length_ge (by omega)]
        rw [readAll_range'_take h.ins is1 1 nIn (Or.inr (by omega))]
      · rw [List.take_range'_of_length_le (by omega)]
        rw [readAll_range'_take h.ins is1 (tx.inputs.length - nIn) nIn (Or.inl (by omega))]
        have : tx.inputs.length - nIn = 0 := by omega
        rw [this]
        have : is1.drop nIn = [] := List.drop_eq_nil_of_le (by omega)
        simp [this]
    · rename_i hacp
      simp only [hacp] at hI2
      have := readAll_range'_take h.ins is2 tx.inputs.length 0 (Or.inr (by omega))
      simp only [Nat.add_zero, List.drop_zero] at this
      rw [this, ← hI2len, List.take_length]
      subst hI2
      have hacp' : acp = false := by cases acp <;> simp_all
      subst hacp'
      simp only [Bool.false_eq_true, ↓reduceIte]
      congr 2
  -- read the outputs of the working copy
  have rO : readAll (fun a => (h.outs ++ os2)[a]?) (List.range' h.outs.length K) = some (outsV os nIn none single) := by
    have := readAll_range'_take h.outs os2 K 0 (Or.inr (by omega))
    simp only [Nat.add_zero, List.drop_zero] at this
    rw [this]
    congr 1
    unfold outsV
    cases none <;> cases single <;> simp only [Bool.false_eq_true, ↓reduceIte, Bool.not_false, Bool.not_true,
      Bool.and_self, Bool.and_true, Bool.and_false, Bool.true_and, Bool.false_and] at hK hO2 ⊢
    · -- neither NONE nor SINGLE: all outputs, untouched
      subst hO2; subst hK
      rw [← co4, List.take_length]
    · -- SINGLE
      subst hO2; subst hK
      apply List.ext_getElem?
      intro x
      rw [List.getElem?_take, List.getElem?_mapIdx, List.getElem?_take, applyFrom_get]
      by_cases hx1 : x < nIn + 1
      · by_cases hx2 : x < tx.outputs.length
        · have hxm : x < min (nIn + 1) tx.outputs.length := by omega
          have hget : os[x]? = some os[x] := List.getElem?_eq_getElem (by omega)
          by_cases hx3 : x < nIn
          · simp [hxm, hx1, hx3, hget, blankOut]
            intro hc; omega
          · simp [hxm, hx1, hx3, hget]
            intro hc; omega
        · have hxm : ¬ x < min (nIn + 1) tx.outputs.length := by omega
          have hget : os[x]? = Option.none := List.getElem?_eq_none_iff.mpr (by omega)
          simp [hxm, hx1, hget]
      · have hxm : ¬ x < min (nIn + 1) tx.outputs.length := by omega
        simp [hxm, hx1]
    · -- NONE
      subst hK; simp
    · -- NONE and SINGLE cannot both hold for one hash type, but the code is total: NONE wins
      subst hK; simp
  simp only [rI, rO]

end BtcVerif.Model.Heap
