/- C16 helper lemmas, part 7: a variant (every step of every component strictly decreases a natural number), hence every run is finite. -/
import BtcVerif.Proofs.StreamProgress
namespace BtcVerif.Model.Stream
open BtcVerif.Gen.Guards

def wrank : WPhase → Nat
  | .idle => 6 | .next => 5 | .hashWait => 4 | .blockReq => 3 | .blockWait => 2
  | .offer _ => 1 | .offerErr => 1 | .done => 0

def wmeasure (P : Params) (w : Worker) : Nat :=
  if w.ph = .done then 0 else 18 * (P.hi + 1 - w.pos) + 3 * wrank w.ph

def rrank : RPhase → Nat
  | .fin => 0 | .absent => 0 | .sendErr => 3 | .loop => 6 | .snd _ => 6 | .rel => 9 | .s0 => 12
  | .f2 => 15 | .f1b => 18 | .f1 => 21 | .f0 => 24

def crank : CPhase → Nat
  | .finished => 0 | .gotEnd => 1 | .call => 2 | .idle => 3 | .got _ => 4 | .gotErr => 4

def wsum (P : Params) (ws : List Worker) : Nat := (ws.map (wmeasure P)).sum

/-- the variant: a natural number that every step of every component strictly decreases -/
def variant (P : Params) (s : State) : Nat :=
  (if s.started then wsum P s.workers else wsum P (initWorkers P true) + 1)
  + (if s.closed then 0 else 1) + rrank s.rph + 6 * (P.hi + 1 - s.cur)
  + (if s.closedSeen then 0 else 4) + crank s.cph + (if s.cancel0 then 0 else 1)

theorem wsum_set {P : Params} {ws : List Worker} {i : Nat} {w w' : Worker} (hw : ws[i]? = some w) :
    wsum P (ws.set i w') + wmeasure P w = wsum P ws + wmeasure P w' := by
  induction ws generalizing i with
  | nil => simp at hw
  | cons x xs ih =>
    cases i with
    | zero =>
      simp only [List.getElem?_cons_zero, Option.some.injEq] at hw; subst hw
      simp only [wsum, List.set_cons_zero, List.map_cons, List.sum_cons]; omega
    | succ i =>
      simp only [List.getElem?_cons_succ] at hw
      have := ih hw
      simp only [wsum, List.set_cons_succ, List.map_cons, List.sum_cons] at this ⊢; omega

/-- before the workers are started they are all idle -/
structure Inv5 (P : Params) (s : State) : Prop where
  nst : s.started = false → ∀ (i : Nat) (w : Worker), s.workers[i]? = some w → w.ph = .idle
  fe : P.mode ≠ .utxo → s.cph = .finished → s.ended = true

theorem inv5_init {P : Params} : Inv5 P (init P) := by
  refine ⟨?_, by simp [init]⟩
  intro hs i w hw
  obtain ⟨_, rfl⟩ := initWorkers_get hw
  simp only [init, decide_eq_false_iff_not] at hs
  simp [initWorker, hs]

theorem inv5_step {P : Params} (hP : P.lo ≤ P.hi) {s l s'} (h : Inv5 P s) (hst : Step P s l s') : Inv5 P s' := by
  obtain ⟨_, hI⟩ := step_inv hst
  obtain ⟨hnst, hfe⟩ := h
  have wcase : ∀ (i : Nat) (w : Worker), s.workers[i]? = some w → w.ph ≠ .idle → s.started = true := by
    intro i w hw hne
    cases hs : s.started
    · exact absurd (hnst hs i w hw) hne
    · rfl
  cases hI with
  | wLocal i w ph' l hw hl => refine ⟨?_, by simpa [setW] using hfe⟩; intro hs; have := wcase i w hw hl.active.2; simp_all [setW]
  | wGiveC i w g hw hp hm hc =>
    refine ⟨?_, ?_⟩
    · intro hs; have := wcase i w hw (by simp [hp]); simp_all [setW]
    · simp_all [setW]
  | wErrC i w hw hp hm hc =>
    refine ⟨?_, ?_⟩
    · intro hs; have := wcase i w hw (by simp [hp]); simp_all [setW]
    · simp_all [setW]
  | wGiveR i w g hw hp hm hr =>
    refine ⟨?_, ?_⟩
    · intro hs; have := wcase i w hw (by simp [hp]); simp_all [setW]
    · simp_all [setW]
  | wErrR i w hw hp hm hr =>
    refine ⟨?_, ?_⟩
    · intro hs; have := wcase i w hw (by simp [hp]); simp_all [setW]
    · simp_all [setW]
  | rF2ok hr | rF2nolink hr =>
    unfold afterFirst
    simp only [blockscan_BlockScanner_streamBlocksUnordered_0]
    split
    · exact ⟨hnst, hfe⟩
    · have : ¬ (P.hi < P.lo + 1) := by omega
      simp only [this, decide_false, Bool.false_eq_true, if_false]
      exact ⟨fun hs => by simp at hs, hfe⟩
  | rS0 hr hc | rRelLoop hr hc1' hc2' => unfold loopHead; split <;> (refine ⟨hnst, ?_⟩; simp_all [exitX])
  | closer hs hc hall | rF0 hr | rF1ok hr | rF1err hr | rF1b hr | rF2err hr | rLoopCancel hr hc | rLoopClosed hr hc
  | rRelSend hr h1' h2' | rRelErr hr h1' h2' | rSnd h hr hc | rSendErr hr hc
  | cCall hc hm' | cRetOk hc hm' hn | cSeeEnd hc hx | cDeliver h hc | cErr hc hm' | cRetErr hc hm' | cEnd hc hm'
  | envCancel hc => refine ⟨hnst, ?_⟩; simp_all [exitX]

theorem reachable_inv5 {P : Params} (hP : P.lo ≤ P.hi) {s} (hr : Reachable P s) : Inv5 P s := by
  induction hr with
  | init => exact inv5_init
  | step _ hst ih => exact inv5_step hP ih hst

theorem wmeasure_init_le (P : Params) (i : Nat) :
    wmeasure P (initWorker P true i) ≤ wmeasure P (initWorker P false i) := by
  simp only [wmeasure, initWorker]
  by_cases h : P.base + i ≤ P.hi <;> simp [h, wrank]

set_option maxHeartbeats 1600000 in
theorem variant_decreases {P : Params} (hP : P.lo ≤ P.hi) {s l s'} (hr : Reachable P s) (hst : Step P s l s') :
    variant P s' < variant P s := by
  have h1 := reachable_inv1 hP hr
  have h4 := reachable_inv4 hP hr
  have h5 := reachable_inv5 hP hr
  obtain ⟨_, hI⟩ := step_inv hst
  -- facts about a worker that moves
  have wfacts : ∀ (i : Nat) (w : Worker), s.workers[i]? = some w → w.ph ≠ .idle →
      s.started = true ∧ 1 ≤ P.p ∧ (w.ph ≠ .done → w.pos ≤ P.hi) := by
    intro i w hw hne
    refine ⟨?_, ?_, fun hd => (h1.wok i w hw).2.2 hd hne⟩
    · cases hs : s.started
      · exact absurd (h5.nst hs i w hw) hne
      · rfl
    · rcases List.getElem?_eq_some_iff.mp hw with ⟨h, _⟩; rw [h1.len] at h; omega
  cases hI with
  | wLocal i w ph' l hw hl =>
    obtain ⟨hs, hp1, hle⟩ := wfacts i w hw hl.active.2
    have hle := hle hl.active.1
    have hsum := wsum_set (P := P) (w' := { w with ph := ph' }) hw
    simp only [variant, setW, hs, if_true]
    cases hl <;> simp_all [wmeasure, wrank] <;> omega
  | wGiveC i w g hw hp hm hc =>
    obtain ⟨hs, hp1, hle⟩ := wfacts i w hw (by simp [hp])
    have hle := hle (by simp [hp])
    have hsum := wsum_set (P := P) (w' := advance P w) hw
    have hm1 : wmeasure P w = 18 * (P.hi + 1 - w.pos) + 3 := by simp [wmeasure, hp, wrank]
    have hm2 : wmeasure P (advance P w) + 6 ≤ wmeasure P w := by
      rw [hm1]; simp only [wmeasure, advance]
      by_cases h : w.pos + P.p ≤ P.hi <;> simp [h, wrank] <;> omega
    simp only [variant, setW, hs, if_true, hc, crank]
    omega
  | wErrC i w hw hp hm hc =>
    obtain ⟨hs, hp1, hle⟩ := wfacts i w hw (by simp [hp])
    have hsum := wsum_set (P := P) (w' := { w with ph := .done }) hw
    have hm1 : wmeasure P w = 18 * (P.hi + 1 - w.pos) + 3 := by simp [wmeasure, hp, wrank]
    have hm2 : wmeasure P { w with ph := .done } = 0 := by simp [wmeasure]
    simp only [variant, setW, hs, if_true, hc, crank]
    omega
  | wGiveR i w g hw hp hm hr' =>
    obtain ⟨hs, hp1, hle⟩ := wfacts i w hw (by simp [hp])
    have hle := hle (by simp [hp])
    have hsum := wsum_set (P := P) (w' := advance P w) hw
    have hm1 : wmeasure P w = 18 * (P.hi + 1 - w.pos) + 3 := by simp [wmeasure, hp, wrank]
    have hm2 : wmeasure P (advance P w) + 6 ≤ wmeasure P w := by
      rw [hm1]; simp only [wmeasure, advance]
      by_cases h : w.pos + P.p ≤ P.hi <;> simp [h, wrank] <;> omega
    simp only [variant, setW, hs, if_true, hr', rrank]
    omega
  | wErrR i w hw hp hm hr' =>
    obtain ⟨hs, hp1, hle⟩ := wfacts i w hw (by simp [hp])
    have hsum := wsum_set (P := P) (w' := { w with ph := .done }) hw
    have hm1 : wmeasure P w = 18 * (P.hi + 1 - w.pos) + 3 := by simp [wmeasure, hp, wrank]
    have hm2 : wmeasure P { w with ph := .done } = 0 := by simp [wmeasure]
    simp only [variant, setW, hs, if_true, hr', rrank]
    omega
  | closer hs hc hall => dsimp only [variant]; simp [hc] <;> omega
  | rF0 hr' | rF1ok hr' | rF1err hr' | rF1b hr' | rF2err hr' => dsimp only [variant]; simp [hr', rrank] <;> omega
  | rF2ok hr' | rF2nolink hr' =>
    have hs : s.started = false := h1.ea (by simp [hr', RPhase.early])
    unfold afterFirst
    simp only [blockscan_BlockScanner_streamBlocksUnordered_0]
    split
    · dsimp only [variant]; simp [hr', rrank] <;> omega
    · have : ¬ (P.hi < P.lo + 1) := by omega
      simp only [this, decide_false, Bool.false_eq_true, if_false]
      dsimp only [variant]; simp [hr', rrank, hs, if_true] <;> omega
  | rS0 hr' hc =>
    have hm : P.mode ≠ .unordered := by intro hm; have := (h1.un hm).1; simp_all
    have hcur := ((reachable_inv2 hP hm hr).ea (.inr hr')).1
    unfold loopHead
    split
    · dsimp only [variant]
      simp [hr', hc, rrank, crank, hcur] <;> omega
    · dsimp only [variant, exitX]
      simp [hr', hc, rrank, crank, hcur] <;> omega
  | rLoopCancel hr' hc => dsimp only [variant, exitX]; simp [hr', rrank] <;> omega
  | rLoopClosed hr' hc =>
    have hcs : s.closedSeen = false := by
      cases h : s.closedSeen
      · rfl
      · have := h4.cs h; simp_all
    dsimp only [variant]; simp [hr', rrank, hcs] <;> omega
  | rRelSend hr' h1' h2' | rRelErr hr' h1' h2' => dsimp only [variant]; simp [hr', rrank] <;> omega
  | rRelLoop hr' hc1' hc2' =>
    unfold loopHead
    split <;> (dsimp only [variant, exitX]; simp [hr', rrank] <;> omega)
  | rSnd h hr' hc =>
    have hm : P.mode ≠ .unordered := by intro hm; have := (h1.un hm).1; simp_all
    have hsn := (reachable_inv2 hP hm hr).sn h hr'
    dsimp only [variant]; simp [hr', hc, rrank, crank] <;> omega
  | rSendErr hr' hc => dsimp only [variant, exitX]; simp [hr', hc, rrank, crank] <;> omega
  | cCall hc hm' | cRetOk hc hm' hn | cSeeEnd hc hx | cDeliver h hc | cErr hc hm' | cEnd hc hm' =>
    dsimp only [variant]; simp [hc, crank] <;> omega
  | cRetErr hc hm' => rcases hc with hc | hc <;> (dsimp only [variant]; simp [hc, crank] <;> omega)
  | envCancel hc => dsimp only [variant]; simp [hc] <;> omega

/-- `Run P s n t`: `t` is reached from `s` by exactly `n` steps -/
inductive Run (P : Params) : State → Nat → State → Prop
  | nil (s) : Run P s 0 s
  | cons {s l t n u} : Step P s l t → Run P t n u → Run P s (n + 1) u

/-- no run from a reachable state is longer than the variant of that state: every run is finite -/
theorem run_bounded {P : Params} (hP : P.lo ≤ P.hi) {s n t} (hr : Reachable P s) (h : Run P s n t) :
    n + variant P t ≤ variant P s := by
  induction h with
  | nil => omega
  | cons hst _ ih =>
    have := variant_decreases hP hr hst
    have := ih (Reachable.step hr hst)
    omega

end BtcVerif.Model.Stream
