import BtcVerif.Model.Alloc
import BtcVerif.Proofs.NoPanic

/-! C17: the allocation bound of the wire decoders. -/
namespace BtcVerif.Model
open BtcVerif BtcVerif.Parser BtcVerif.Model.CParser
open BtcVerif.Gen.Guards

/-- `Bounded p A B m`: `p` never panics; on success it consumed at least `m` bytes (a suffix of
    the input remains) and allocated at most `B` bytes per byte consumed; on failure it allocated at
    most `A` plus `B` bytes per byte of input available. -/
def Bounded {α} (p : CParser α) (A B m : Nat) : Prop :=
  ∀ s, (p s).1 ≠ .panic ∧
    (∀ a rest, (p s).1 = .ok (a, rest) →
      rest.length + m ≤ s.length ∧ (p s).2 ≤ B * (s.length - rest.length)) ∧
    ((p s).1 = .err → (p s).2 ≤ A + B * s.length)

theorem Bounded.mono {α} {p : CParser α} {A B m A' B' m' : Nat} (h : Bounded p A B m)
    (hA : A ≤ A') (hB : B ≤ B') (hm : m' ≤ m) : Bounded p A' B' m' := by
  intro s
  obtain ⟨h1, h2, h3⟩ := h s
  refine ⟨h1, ?_, ?_⟩
  · intro a rest he
    obtain ⟨h4, h5⟩ := h2 a rest he
    refine ⟨by omega, ?_⟩
    calc (p s).2 ≤ B * (s.length - rest.length) := h5
      _ ≤ B' * (s.length - rest.length) := Nat.mul_le_mul_right _ hB
  · intro he
    calc (p s).2 ≤ A + B * s.length := h3 he
      _ ≤ A' + B' * s.length := Nat.add_le_add hA (Nat.mul_le_mul_right _ hB)

theorem Bounded.pure {α} (a : α) (A B : Nat) : Bounded (Pure.pure a : CParser α) A B 0 := by
  intro s
  refine ⟨(by intro h; cases h), ?_, (by intro h; cases h)⟩
  intro a' rest he
  have : (Pure.pure a : CParser α) s = (.ok (a, s), 0) := rfl
  rw [this] at he ⊢
  injection he with he; injection he with _ h2
  subst h2; simp

theorem Bounded.fail {α} (A B m : Nat) : Bounded (CParser.fail : CParser α) A B m := by
  intro s
  refine ⟨(by intro h; cases h), (by intro a rest h; cases h), ?_⟩
  intro _; show (0 : Nat) ≤ _; omega

theorem bind_ok {α β} {p : CParser α} {f : α → CParser β} {s rest : Bytes} {a : α} {c : Nat}
    (h : p s = (.ok (a, rest), c)) : (p >>= f) s = ((f a rest).1, c + (f a rest).2) := by
  rw [CParser.bind_def, h]

theorem bind_err {α β} {p : CParser α} {f : α → CParser β} {s : Bytes} {c : Nat}
    (h : p s = (.err, c)) : (p >>= f) s = (.err, c) := by
  rw [CParser.bind_def, h]

/-- sequencing: minimum consumptions add, the failure constant is shared -/
theorem Bounded.bind {α β} {p : CParser α} {f : α → CParser β} {A B m n : Nat}
    (hp : Bounded p A B m) (hf : ∀ a, Bounded (f a) A B n) : Bounded (p >>= f) A B (m + n) := by
  intro s
  obtain ⟨p1, p2, p3⟩ := hp s
  cases hps : p s with
  | mk o c =>
    rw [hps] at p1 p2 p3
    cases o with
    | ok ar =>
      obtain ⟨a, rest⟩ := ar
      obtain ⟨q1, q2⟩ := p2 a rest rfl
      simp only at q2
      rw [bind_ok hps]
      obtain ⟨f1, f2, f3⟩ := hf a rest
      refine ⟨f1, ?_, ?_⟩
      · intro b rest2 he
        obtain ⟨g1, g2⟩ := f2 b rest2 he
        refine ⟨by omega, ?_⟩
        have e : s.length - rest2.length = (s.length - rest.length) + (rest.length - rest2.length) := by omega
        show c + (f a rest).2 ≤ _
        rw [e, Nat.mul_add]; omega
      · intro he
        have g := f3 he
        have e : B * s.length = B * (s.length - rest.length) + B * rest.length := by
          rw [← Nat.mul_add]; congr 1; omega
        show c + (f a rest).2 ≤ _
        omega
    | err =>
      rw [bind_err hps]
      refine ⟨(by intro h; cases h), (by intro a rest h; cases h), ?_⟩
      intro _; exact p3 rfl
    | panic => exact absurd rfl p1

theorem Bounded.ite {α} (c : Prop) [Decidable c] {p q : CParser α} {A B m : Nat}
    (hp : c → Bounded p A B m) (hq : ¬ c → Bounded q A B m) : Bounded (if c then p else q) A B m := by
  split
  · exact hp ‹_›
  · exact hq ‹_›

/-- a plain (non-allocating) reader that consumes at least `m` bytes on success -/
theorem Bounded.lift {α} (p : Parser α) (A B m : Nat) (hnp : NoPanic p)
    (hc : ∀ s a rest, p s = .ok (a, rest) → rest.length + m ≤ s.length) : Bounded (CParser.lift p) A B m := by
  intro s
  have e : CParser.lift p s = (p s, 0) := rfl
  rw [e]
  refine ⟨hnp s, ?_, ?_⟩
  · intro a rest h; exact ⟨hc s a rest h, Nat.zero_le _⟩
  · intro _; exact Nat.zero_le _

theorem readN_consumes {n : Nat} {s r rest : Bytes} (h : readN n s = .ok (r, rest)) :
    rest.length + n = s.length := by
  obtain ⟨hs, hl⟩ := readN_ok h
  rw [hs]; simp; omega

theorem readLE_consumes {k : Nat} {s rest : Bytes} {n : Nat} (h : readLE k s = .ok (n, rest)) :
    rest.length + k = s.length := by
  obtain ⟨hs, _⟩ := readLE_ok h
  rw [hs]; simp; omega

theorem decVarint_consumes {s rest : Bytes} {v : Nat} (h : decVarint s = .ok (v, rest)) :
    rest.length + 1 ≤ s.length := by
  obtain ⟨_, pre, hs, hp, _⟩ := decVarint_ok h
  rw [hs]; simp; omega

theorem bounded_readLE (k A B : Nat) : Bounded (CParser.lift (readLE k)) A B k :=
  Bounded.lift _ A B k (noPanic_readLE k) (fun s a rest h => by have := readLE_consumes h; omega)

theorem bounded_readN (n A B : Nat) : Bounded (CParser.lift (readN n)) A B n :=
  Bounded.lift _ A B n (noPanic_readN n) (fun s a rest h => by have := readN_consumes h; omega)

theorem bounded_decVarint (A B : Nat) : Bounded (CParser.lift decVarint) A B 1 :=
  Bounded.lift _ A B 1 noPanic_decVarint (fun s a rest h => decVarint_consumes h)

/-- an allocation of `n ≤ A` bytes followed by reading them: backed by the input on success -/
theorem bounded_allocRead (n A B : Nat) (hn : n ≤ A) (hB : 1 ≤ B) : Bounded (allocRead n) A B n := by
  intro s
  have e : allocRead n s = (readN n s, n) := rfl
  rw [e]
  refine ⟨readN_ne_panic n s, ?_, ?_⟩
  · intro a rest h
    have := readN_consumes h
    refine ⟨by omega, ?_⟩
    have e2 : s.length - rest.length = n := by omega
    rw [e2]
    calc n = 1 * n := (Nat.one_mul n).symm
      _ ≤ B * n := Nat.mul_le_mul_right _ hB
  · intro _; show n ≤ _; omega

theorem bounded_boundedRead (n A B : Nat) (hA : 131072 ≤ A) (hB : 8 ≤ B) : Bounded (boundedRead n) A B n := by
  intro s
  have e : boundedRead n s = (readN n s, if n ≤ s.length then 8 * n else 8 * s.length + 131072) := rfl
  rw [e]
  refine ⟨readN_ne_panic n s, ?_, ?_⟩
  · intro a rest h
    have hc := readN_consumes h
    have hle : n ≤ s.length := by omega
    refine ⟨by omega, ?_⟩
    simp only [hle, ite_true]
    have e2 : s.length - rest.length = n := by omega
    rw [e2]
    exact Nat.mul_le_mul_right _ hB
  · intro _
    show (if n ≤ s.length then 8 * n else 8 * s.length + 131072) ≤ _
    split
    · rename_i hle
      have h2 : 8 * n ≤ B * s.length :=
        calc 8 * n ≤ 8 * s.length := Nat.mul_le_mul_left _ hle
          _ ≤ B * s.length := Nat.mul_le_mul_right _ hB
      omega
    · have h2 : 8 * s.length ≤ B * s.length := Nat.mul_le_mul_right _ hB
      omega

/-- a charge of `w` bytes that the following parser's minimum consumption `m` pays for -/
theorem bounded_charge_then {α} (w : Nat) {p : CParser α} {A A' B Bw m : Nat}
    (hp : Bounded p A B m) (hwA : w + A ≤ A') (hw : w ≤ Bw * m) :
    Bounded (charge w >>= fun _ => p) A' (B + Bw) m := by
  intro s
  have e : (charge w >>= fun _ => p) s = ((p s).1, w + (p s).2) := rfl
  rw [e]
  obtain ⟨p1, p2, p3⟩ := hp s
  refine ⟨p1, ?_, ?_⟩
  · intro a rest he
    obtain ⟨q1, q2⟩ := p2 a rest he
    refine ⟨q1, ?_⟩
    have hm : m ≤ s.length - rest.length := by omega
    have : Bw * m ≤ Bw * (s.length - rest.length) := Nat.mul_le_mul_left _ hm
    show w + (p s).2 ≤ _
    rw [Nat.add_mul]; omega
  · intro he
    have := p3 he
    show w + (p s).2 ≤ _
    rw [Nat.add_mul]; omega

/-- `k` elements in a row, each consuming at least `m`: at least `k * m` in total -/
theorem bounded_creadMany {α} {p : CParser α} {A B m : Nat} (hp : Bounded p A B m) (k : Nat) :
    Bounded (creadMany p k) A B (k * m) := by
  induction k with
  | zero => simpa [creadMany] using Bounded.pure ([] : List α) A B
  | succ k ih =>
    unfold creadMany
    have := Bounded.bind hp (fun x => Bounded.bind ih (fun xs => Bounded.pure (x :: xs) A B))
    refine Bounded.mono this (Nat.le_refl _) (Nat.le_refl _) ?_
    rw [Nat.succ_mul]; omega

/-- a trailing fixed charge paid for by what the object consumed -/
theorem bounded_tail_charge {α} (w : Nat) (a : α) {A B : Nat} :
    Bounded (charge w >>= fun _ => (Pure.pure a : CParser α)) (A + w) B 0 → True := fun _ => trivial

end BtcVerif.Model

namespace BtcVerif.Model
open BtcVerif BtcVerif.Parser BtcVerif.Model.CParser
open BtcVerif.Gen.Guards

/-! ### the decoders -/

theorem decPrevOut_consumes {s rest : Bytes} {p : PrevOut} (h : decPrevOut s = .ok (p, rest)) :
    rest.length + 36 ≤ s.length := by
  unfold decPrevOut at h
  rw [Parser.bind_def] at h
  split at h
  · rename_i a s1 h1
    rw [Parser.bind_def] at h
    split at h
    · rename_i b s2 h2
      injection h with h; injection h with _ h
      subst h
      have := readN_consumes h1
      have := readLE_consumes h2
      omega
    · cases h
    · cases h
  · cases h
  · cases h

theorem sniff_consumes {s rest : Bytes} {b : Bool} (h : sniffSegwit s = .ok (b, rest)) :
    rest.length ≤ s.length := by
  unfold sniffSegwit at h
  split at h
  · rename_i flag r h1
    injection h with h; injection h with _ h
    have := readN_consumes h1
    obtain ⟨hs, hl⟩ := readN_ok h1
    subst h
    split <;> simp <;> omega
  · cases h
  · cases h

theorem bounded_cdecTxIn : Bounded cdecTxIn 1000096 4 41 := by
  unfold cdecTxIn
  have inner : Bounded (do
      let p ← lift decPrevOut
      let n ← lift decVarint
      if tx_inputFromReader_0 n then CParser.fail else
      let s ← allocRead n
      let q ← lift (readLE 4)
      return (⟨p, s, q⟩ : TxIn)) 1000000 1 41 := by
    have h := Bounded.bind (Bounded.lift decPrevOut 1000000 1 36 noPanic_decPrevOut
        (fun s a rest h => decPrevOut_consumes h))
      (fun p => Bounded.bind (bounded_decVarint 1000000 1) (fun n =>
        Bounded.ite (tx_inputFromReader_0 n = true)
          (fun _ => Bounded.fail 1000000 1 4)
          (fun hg => by
            have hn : n ≤ 1000000 := by simp [tx_inputFromReader_0] at hg; omega
            have := Bounded.bind (bounded_allocRead n 1000000 1 hn (Nat.le_refl _))
              (fun s => Bounded.bind (bounded_readLE 4 1000000 1)
                (fun q => Bounded.pure (⟨p, s, q⟩ : TxIn) 1000000 1))
            exact Bounded.mono this (Nat.le_refl _) (Nat.le_refl _) (by omega))))
    exact Bounded.mono h (Nat.le_refl _) (Nat.le_refl _) (by omega)
  exact bounded_charge_then objInput inner (A' := 1000096) (Bw := 3) (by unfold objInput; omega)
    (by unfold objInput; omega)

theorem bounded_cdecTxOut : Bounded cdecTxOut 1000048 7 9 := by
  unfold cdecTxOut
  have inner : Bounded (do
      let v ← lift (readLE 8)
      let n ← lift decVarint
      if tx_outputFromReader_0 n then CParser.fail else
      let s ← allocRead n
      return (⟨v, s⟩ : TxOut)) 1000000 1 9 := by
    have h := Bounded.bind (bounded_readLE 8 1000000 1)
      (fun v => Bounded.bind (bounded_decVarint 1000000 1) (fun n =>
        Bounded.ite (tx_outputFromReader_0 n = true)
          (fun _ => Bounded.fail 1000000 1 0)
          (fun hg => by
            have hn : n ≤ 1000000 := by simp [tx_outputFromReader_0] at hg; omega
            have := Bounded.bind (bounded_allocRead n 1000000 1 hn (Nat.le_refl _))
              (fun s => Bounded.pure (⟨v, s⟩ : TxOut) 1000000 1)
            exact Bounded.mono this (Nat.le_refl _) (Nat.le_refl _) (by omega))))
    exact Bounded.mono h (Nat.le_refl _) (Nat.le_refl _) (by omega)
  exact bounded_charge_then objOutput inner (A' := 1000048) (Bw := 6) (by unfold objOutput; omega)
    (by unfold objOutput; omega)

theorem bounded_cdecChunks (k size : Nat) : Bounded (cdecChunks k size) 131072 8 k := by
  induction k generalizing size with
  | zero => simpa [cdecChunks] using Bounded.pure ([] : List Bytes) 131072 8
  | succ k ih =>
    unfold cdecChunks
    have h := Bounded.bind (bounded_decVarint 131072 8) (fun n =>
      Bounded.ite (tx_witnessFromReader_2 (chunkLength := n) (witnessSize := size) = true)
        (fun _ => Bounded.fail 131072 8 k)
        (fun _ => by
          have := Bounded.bind (bounded_boundedRead n 131072 8 (Nat.le_refl _) (Nat.le_refl _))
            (fun c => Bounded.bind (ih ((size + n) % 18446744073709551616))
              (fun cs => Bounded.pure (c :: cs) 131072 8))
          exact Bounded.mono this (Nat.le_refl _) (Nat.le_refl _) (by omega)))
    exact Bounded.mono h (Nat.le_refl _) (Nat.le_refl _) (by omega)

theorem bounded_cdecWitness : Bounded cdecWitness 371072 32 1 := by
  unfold cdecWitness
  have h := Bounded.bind (bounded_decVarint 371072 32) (fun n =>
    Bounded.ite (tx_witnessFromReader_0 n = true)
      (fun _ => Bounded.fail 371072 32 0)
      (fun hg => by
        have hn : n ≤ 10000 := by simp [tx_witnessFromReader_0] at hg; omega
        have := bounded_charge_then (24 * n) (bounded_cdecChunks n 0) (A' := 371072) (Bw := 24)
          (by omega) (Nat.le_refl _)
        exact Bounded.mono this (Nat.le_refl _) (by omega) (Nat.zero_le _)))
  exact Bounded.mono h (Nat.le_refl _) (Nat.le_refl _) (by omega)

/-- the failure constant of a transaction: the allocations that can be made before the input
    backing them has arrived (one script 1 000 000 + object, pointer slices 8·24 390 and 8·111 111,
    witness headers 24·24 390, …), plus fixed per-object sizes -/
def txAllocConst : Nat := 2084264
def blockAllocConst : Nat := 2181824

theorem bounded_cdecTx : Bounded cdecTx txAllocConst 74 10 := by
  unfold cdecTx
  have inner : Bounded (do
      let version ← lift (readLE 4)
      let hasWitness ← lift sniffSegwit
      let nIn ← lift decVarint
      if tx_FromReader_1 nIn then CParser.fail else
      charge (8 * nIn)
      let ins ← creadMany cdecTxIn nIn
      let nOut ← lift decVarint
      if tx_FromReader_3 nOut then CParser.fail else
      charge (8 * nOut)
      let outs ← creadMany cdecTxOut nOut
      let wits ← (if tx_FromReader_5 hasWitness then (do
                    charge (24 * nIn)
                    let ws ← creadMany cdecWitness nIn
                    return some ws)
                  else pure none : CParser (Option (List Witness)))
      let lock ← lift (readLE 4)
      return (⟨version, ins, outs, wits, lock⟩ : Tx)) 2084104 58 10 := by
    have h := Bounded.bind (bounded_readLE 4 2084104 58) (fun version =>
      Bounded.bind (Bounded.lift sniffSegwit 2084104 58 0 noPanic_sniff (fun s a rest h => by
          have := sniff_consumes h; omega)) (fun hasWitness =>
      Bounded.bind (bounded_decVarint 2084104 58) (fun nIn =>
        Bounded.ite (tx_FromReader_1 nIn = true) (fun _ => Bounded.fail 2084104 58 5)
          (fun hg => by
            have hn : nIn ≤ 24390 := by simp [tx_FromReader_1] at hg; omega
            -- witnesses (with their header slice)
            have hw : Bounded (if tx_FromReader_5 hasWitness then (do
                      charge (24 * nIn)
                      let ws ← creadMany cdecWitness nIn
                      return some ws)
                    else pure none : CParser (Option (List Witness))) 1000096 56 0 := by
              apply Bounded.ite
              · intro _
                have h0 := Bounded.bind (bounded_creadMany bounded_cdecWitness nIn)
                  (fun ws => Bounded.pure (some ws) 371072 32)
                have := bounded_charge_then (24 * nIn) h0 (A' := 1000096) (Bw := 24) (by omega) (by omega)
                exact Bounded.mono this (Nat.le_refl _) (by omega) (Nat.zero_le _)
              · intro _; exact Bounded.pure none 1000096 56
            -- everything after the inputs
            have hrest : ∀ ins : List TxIn, Bounded (do
                let nOut ← lift decVarint
                if tx_FromReader_3 nOut then CParser.fail else
                charge (8 * nOut)
                let outs ← creadMany cdecTxOut nOut
                let wits ← (if tx_FromReader_5 hasWitness then (do
                              charge (24 * nIn)
                              let ws ← creadMany cdecWitness nIn
                              return some ws)
                            else pure none : CParser (Option (List Witness)))
                let lock ← lift (readLE 4)
                return (⟨version, ins, outs, wits, lock⟩ : Tx)) 1888984 57 5 := by
              intro ins
              have h2 := Bounded.bind (bounded_decVarint 1888984 57) (fun nOut =>
                Bounded.ite (tx_FromReader_3 nOut = true) (fun _ => Bounded.fail 1888984 57 4)
                  (fun hg2 => by
                    have hn2 : nOut ≤ 111111 := by simp [tx_FromReader_3] at hg2; omega
                    have htail : ∀ outs : List TxOut, Bounded (do
                        let wits ← (if tx_FromReader_5 hasWitness then (do
                              charge (24 * nIn)
                              let ws ← creadMany cdecWitness nIn
                              return some ws)
                            else pure none : CParser (Option (List Witness)))
                        let lock ← lift (readLE 4)
                        return (⟨version, ins, outs, wits, lock⟩ : Tx)) 1000096 56 4 := by
                      intro outs
                      have := Bounded.bind hw (fun wits => Bounded.bind (bounded_readLE 4 1000096 56)
                        (fun lock => Bounded.pure (⟨version, ins, outs, wits, lock⟩ : Tx) 1000096 56))
                      exact Bounded.mono this (Nat.le_refl _) (Nat.le_refl _) (by omega)
                    have h3 := Bounded.bind
                      (Bounded.mono (bounded_creadMany bounded_cdecTxOut nOut) (by omega : 1000048 ≤ 1000096)
                        (by omega : 7 ≤ 56) (Nat.le_refl _)) htail
                    have := bounded_charge_then (8 * nOut) h3 (A' := 1888984) (Bw := 1) (by omega) (by omega)
                    exact Bounded.mono this (Nat.le_refl _) (Nat.le_refl _) (by omega)))
              exact Bounded.mono h2 (Nat.le_refl _) (Nat.le_refl _) (by omega)
            have h4 := Bounded.bind
              (Bounded.mono (bounded_creadMany bounded_cdecTxIn nIn) (by omega : 1000096 ≤ 1888984)
                (by omega : 4 ≤ 57) (Nat.le_refl _)) hrest
            have := bounded_charge_then (8 * nIn) h4 (A' := 2084104) (Bw := 1) (by omega) (by omega)
            exact Bounded.mono this (Nat.le_refl _) (Nat.le_refl _) (by omega)))))
    exact Bounded.mono h (Nat.le_refl _) (Nat.le_refl _) (by omega)
  exact bounded_charge_then objTx inner (A' := txAllocConst) (Bw := 16) (by unfold objTx txAllocConst; omega)
    (by unfold objTx; omega)

theorem decHeader_consumes {s rest : Bytes} {h : Header} (hd : decHeader s = .ok (h, rest)) :
    rest.length ≤ s.length := by
  have key : ∀ {α} (p : Parser α), True := fun _ => trivial
  unfold decHeader at hd
  -- six successive reads; each leaves a suffix
  rw [Parser.bind_def] at hd
  split at hd
  · rename_i a s1 h1
    rw [Parser.bind_def] at hd
    split at hd
    · rename_i b s2 h2
      rw [Parser.bind_def] at hd
      split at hd
      · rename_i c s3 h3
        rw [Parser.bind_def] at hd
        split at hd
        · rename_i d s4 h4
          rw [Parser.bind_def] at hd
          split at hd
          · rename_i e s5 h5
            rw [Parser.bind_def] at hd
            split at hd
            · rename_i f s6 h6
              injection hd with hd; injection hd with _ hd
              subst hd
              have := readLE_consumes h1
              have := readN_consumes h2
              have := readN_consumes h3
              have := readLE_consumes h4
              have := readLE_consumes h5
              have := readLE_consumes h6
              omega
            all_goals cases hd
          all_goals cases hd
        all_goals cases hd
      all_goals cases hd
    all_goals cases hd
  all_goals cases hd

theorem bounded_cdecBlock : Bounded cdecBlock blockAllocConst 75 1 := by
  unfold cdecBlock
  have h := Bounded.bind (Bounded.lift decHeader blockAllocConst 75 0 noPanic_decHeader
      (fun s a rest h => by have := decHeader_consumes h; omega)) (fun hdr =>
    Bounded.bind (bounded_decVarint blockAllocConst 75) (fun n =>
      Bounded.ite (blocks_fromReader_0 n = true) (fun _ => Bounded.fail blockAllocConst 75 0)
        (fun hg => by
          have hn : n ≤ 12195 := by simp [blocks_fromReader_0] at hg; omega
          have h1 := Bounded.bind (bounded_creadMany bounded_cdecTx n)
            (fun txs => Bounded.pure (⟨hdr, txs⟩ : Block) txAllocConst 74)
          have h2 := bounded_charge_then (8 * n) h1 (A' := blockAllocConst) (Bw := 1)
            (by unfold txAllocConst blockAllocConst; omega) (by omega)
          exact Bounded.mono h2 (Nat.le_refl _) (by omega) (Nat.zero_le _))))
  exact Bounded.mono h (Nat.le_refl _) (Nat.le_refl _) (by omega)

/-- **C17 (allocation)**: whatever the input, decoding a transaction allocates at most a fixed
    constant (< 2 MB) plus 74 bytes per input byte; a block, < 2.2 MB plus 75 bytes per input byte -/
theorem cdecTx_alloc_le (s : Bytes) : (cdecTx s).2 ≤ txAllocConst + 74 * s.length := by
  obtain ⟨h1, h2, h3⟩ := bounded_cdecTx s
  cases hs : (cdecTx s).1 with
  | ok ar =>
    obtain ⟨a, rest⟩ := ar
    have := (h2 a rest hs).2
    have : 74 * (s.length - rest.length) ≤ 74 * s.length := Nat.mul_le_mul_left _ (Nat.sub_le _ _)
    omega
  | err => exact h3 hs
  | panic => exact absurd hs h1

theorem cdecBlock_alloc_le (s : Bytes) : (cdecBlock s).2 ≤ blockAllocConst + 75 * s.length := by
  obtain ⟨h1, h2, h3⟩ := bounded_cdecBlock s
  cases hs : (cdecBlock s).1 with
  | ok ar =>
    obtain ⟨a, rest⟩ := ar
    have := (h2 a rest hs).2
    have : 75 * (s.length - rest.length) ≤ 75 * s.length := Nat.mul_le_mul_left _ (Nat.sub_le _ _)
    omega
  | err => exact h3 hs
  | panic => exact absurd hs h1

end BtcVerif.Model

namespace BtcVerif.Model
open BtcVerif BtcVerif.Parser BtcVerif.Model.CParser
open BtcVerif.Gen.Guards

/-! ### the instrumented decoders compute what the plain decoders compute -/

def erase {α} (p : CParser α) : Parser α := fun s => (p s).1

theorem erase_bind {α β} (p : CParser α) (f : α → CParser β) :
    erase (p >>= f) = (erase p >>= fun a => erase (f a)) := by
  funext s
  show ((p >>= f) s).1 = _
  rw [CParser.bind_def, Parser.bind_def]
  unfold erase
  cases h : p s with
  | mk o c => cases o with
    | ok ar => obtain ⟨a, r⟩ := ar; rfl
    | err => rfl
    | panic => rfl

@[simp] theorem erase_lift {α} (p : Parser α) : erase (CParser.lift p) = p := rfl
@[simp] theorem erase_pure {α} (a : α) : erase (Pure.pure a : CParser α) = (Pure.pure a : Parser α) := rfl
@[simp] theorem erase_fail {α} : erase (CParser.fail : CParser α) = (Parser.fail : Parser α) := rfl
@[simp] theorem erase_allocRead (n : Nat) : erase (allocRead n) = readN n := rfl
@[simp] theorem erase_boundedRead (n : Nat) : erase (boundedRead n) = readN n := rfl
theorem erase_ite {α} (c : Prop) [Decidable c] (p q : CParser α) :
    erase (if c then p else q) = if c then erase p else erase q := by split <;> rfl

theorem erase_charge {α} (w : Nat) (p : CParser α) : erase (charge w >>= fun _ => p) = erase p := rfl

theorem pbind_congr {α β} (p : Parser α) (f g : α → Parser β) (h : ∀ a, f a = g a) :
    (p >>= f) = (p >>= g) := by
  have : f = g := funext h
  rw [this]

theorem erase_creadMany {α} (p : CParser α) (q : Parser α) (h : erase p = q) (k : Nat) :
    erase (creadMany p k) = readMany q k := by
  induction k with
  | zero => rfl
  | succ k ih =>
    unfold creadMany readMany
    rw [erase_bind, h]
    apply pbind_congr
    intro x
    rw [erase_bind, ih]
    rfl

theorem erase_cdecTxIn : erase cdecTxIn = decTxIn := by
  unfold cdecTxIn decTxIn
  rw [erase_charge, erase_bind, erase_lift]
  apply pbind_congr; intro p
  rw [erase_bind, erase_lift]
  apply pbind_congr; intro n
  rw [erase_ite]
  split
  · rfl
  · rw [erase_bind, erase_allocRead]
    apply pbind_congr; intro s
    rw [erase_bind, erase_lift]
    rfl

theorem erase_cdecTxOut : erase cdecTxOut = decTxOut := by
  unfold cdecTxOut decTxOut
  rw [erase_charge, erase_bind, erase_lift]
  apply pbind_congr; intro v
  rw [erase_bind, erase_lift]
  apply pbind_congr; intro n
  rw [erase_ite]
  split
  · rfl
  · rw [erase_bind, erase_allocRead]
    rfl

theorem erase_cdecChunks (k size : Nat) : erase (cdecChunks k size) = decChunks k size := by
  induction k generalizing size with
  | zero => rfl
  | succ k ih =>
    unfold cdecChunks decChunks
    rw [erase_bind, erase_lift]
    apply pbind_congr; intro n
    rw [erase_ite]
    split
    · rfl
    · rw [erase_bind, erase_boundedRead]
      apply pbind_congr; intro c
      rw [erase_bind, ih]
      rfl

theorem erase_cdecWitness : erase cdecWitness = decWitness := by
  unfold cdecWitness decWitness
  rw [erase_bind, erase_lift]
  apply pbind_congr; intro n
  rw [erase_ite]
  split
  · rfl
  · rw [erase_charge, erase_cdecChunks]

theorem erase_cdecTx : erase cdecTx = decTx := by
  unfold cdecTx decTx
  rw [erase_charge, erase_bind, erase_lift]
  apply pbind_congr; intro version
  rw [erase_bind, erase_lift]
  apply pbind_congr; intro hasWitness
  rw [erase_bind, erase_lift]
  apply pbind_congr; intro nIn
  rw [erase_ite]
  split
  · rfl
  · rw [erase_charge, erase_bind, erase_creadMany cdecTxIn decTxIn erase_cdecTxIn]
    apply pbind_congr; intro ins
    rw [erase_bind, erase_lift]
    apply pbind_congr; intro nOut
    rw [erase_ite]
    split
    · rfl
    · rw [erase_charge, erase_bind, erase_creadMany cdecTxOut decTxOut erase_cdecTxOut]
      apply pbind_congr; intro outs
      rw [erase_bind]
      have hw : erase (if tx_FromReader_5 hasWitness then (do
                    charge (24 * nIn)
                    let ws ← creadMany cdecWitness nIn
                    return some ws)
                  else pure none : CParser (Option (List Witness)))
          = (if tx_FromReader_5 hasWitness then (do let ws ← readMany decWitness nIn; return some ws)
              else pure none : Parser (Option (List Witness))) := by
        rw [erase_ite]
        split
        · rw [erase_charge, erase_bind, erase_creadMany cdecWitness decWitness erase_cdecWitness]
          rfl
        · rfl
      rw [hw]
      apply pbind_congr; intro wits
      rw [erase_bind, erase_lift]
      rfl

theorem erase_cdecBlock : erase cdecBlock = decBlock := by
  unfold cdecBlock decBlock
  rw [erase_bind, erase_lift]
  apply pbind_congr; intro h
  rw [erase_bind, erase_lift]
  apply pbind_congr; intro n
  rw [erase_ite]
  split
  · rfl
  · rw [erase_charge, erase_bind, erase_creadMany cdecTx decTx erase_cdecTx]
    rfl

end BtcVerif.Model
