/-
  Named mathematical hypotheses about the curve operations (DESIGN.md section 5): never axioms,
  always fields of a structure that a theorem takes as an argument.

  * `SecpGroup C` : the points with `add`/`neg`/`zero` are a commutative group, `k ↦ mulG k` is the
    homomorphism `k ↦ k·G`, and `G` has order exactly `n ≤ 2^256`.
  * `PointCodec C`: the three serialisations have their fixed widths and `ecc.DeserializePoint`
    inverts the compressed and the uncompressed one on every point but infinity.
  * `XOnly C S`   : `x(−P) = x(P)`, the parity of `y` flips under negation, and parsing the 32-byte
    x-only form returns the point with even `y` (BIP340 `lift_x`).

  The package is shown consistent by a toy instance (`toy`, the additive group of integers mod 7
  with `x a = min a (7−a)` and "odd" meaning `a > 3`), so no theorem is vacuous because its
  hypotheses cannot be met. Core Lean only (no Mathlib needed).
-/
import BtcVerif.Model.Bip32

namespace BtcVerif.Proofs
open BtcVerif BtcVerif.Model BtcVerif.Model.Bip32

structure SecpGroup {P : Type} (C : CurveOps P) where
  neg : P → P
  n_pos : 0 < C.n
  n_le : C.n ≤ 2 ^ 256
  add_comm : ∀ a b, C.add a b = C.add b a
  add_assoc : ∀ a b c, C.add (C.add a b) c = C.add a (C.add b c)
  zero_add : ∀ a, C.add C.zero a = a
  neg_add : ∀ a, C.add (neg a) a = C.zero
  mulG_zero : C.mulG 0 = C.zero
  mulG_add : ∀ a b, C.mulG (a + b) = C.add (C.mulG a) (C.mulG b)
  /-- `n·G = 0` … -/
  mulG_n : C.mulG C.n = C.zero
  /-- … and no smaller positive multiple is: `G` has order exactly `n` -/
  mulG_ne_zero : ∀ a, 0 < a → a < C.n → C.mulG a ≠ C.zero

structure PointCodec {P : Type} (C : CurveOps P) where
  compress_length : ∀ a, (C.compress a).length = 33
  uncompress_length : ∀ a, (C.uncompress a).length = 65
  xBytes_length : ∀ a, (C.xBytes a).length = 32
  parse_compress : ∀ a, a ≠ C.zero → C.parse (C.compress a) = some a
  parse_uncompress : ∀ a, a ≠ C.zero → C.parse (C.uncompress a) = some a

structure XOnly {P : Type} (C : CurveOps P) (S : SecpGroup C) where
  xBytes_neg : ∀ a, C.xBytes (S.neg a) = C.xBytes a
  yOdd_neg : ∀ a, a ≠ C.zero → C.yOdd (S.neg a) = !C.yOdd a
  /-- `lift_x`: the x-only form parses to the point with this `x` and even `y` -/
  parse_xBytes : ∀ a, a ≠ C.zero → C.parse (C.xBytes a) = some (if C.yOdd a then S.neg a else a)

namespace SecpGroup
variable {P : Type} {C : CurveOps P} (S : SecpGroup C)
include S

theorem add_zero (a : P) : C.add a C.zero = a := by rw [S.add_comm, S.zero_add]

theorem add_neg (a : P) : C.add a (S.neg a) = C.zero := by rw [S.add_comm, S.neg_add]

theorem add_left_cancel {a b c : P} (h : C.add a b = C.add a c) : b = c := by
  have := congrArg (C.add (S.neg a)) h
  rwa [← S.add_assoc, ← S.add_assoc, S.neg_add, S.zero_add, S.zero_add] at this

/-- an element that adds with `a` to zero is `neg a` -/
theorem eq_neg_of_add_eq_zero {a b : P} (h : C.add b a = C.zero) : b = S.neg a := by
  have h2 : C.add a b = C.add a (S.neg a) := by rw [S.add_neg, S.add_comm, h]
  exact S.add_left_cancel h2

theorem neg_zero : S.neg C.zero = C.zero := by
  have := S.neg_add C.zero
  rwa [S.add_zero] at this

theorem neg_neg (a : P) : S.neg (S.neg a) = a :=
  (S.eq_neg_of_add_eq_zero (S.add_neg a)).symm

theorem neg_ne_zero {a : P} (h : a ≠ C.zero) : S.neg a ≠ C.zero := by
  intro h0
  apply h
  have := S.neg_neg a
  rw [h0, S.neg_zero] at this
  exact this.symm

theorem mulG_mul_n (q : Nat) : C.mulG (C.n * q) = C.zero := by
  induction q with
  | zero => simpa using S.mulG_zero
  | succ q ih => rw [Nat.mul_succ, S.mulG_add, ih, S.mulG_n, S.zero_add]

/-- scalars act modulo the group order -/
theorem mulG_mod (a : Nat) : C.mulG (a % C.n) = C.mulG a := by
  conv => rhs; rw [← Nat.mod_add_div a C.n]
  rw [S.mulG_add, S.mulG_mul_n, S.add_zero]

/-- `(n − d)·G = −(d·G)` -/
theorem mulG_sub (d : Nat) (h : d ≤ C.n) : C.mulG (C.n - d) = S.neg (C.mulG d) := by
  apply S.eq_neg_of_add_eq_zero
  rw [← S.mulG_add, Nat.sub_add_cancel h, S.mulG_n]

theorem mulG_valid_ne_zero {d : Nat} (h : isValidScalar C.n d = true) : C.mulG d ≠ C.zero := by
  simp [isValidScalar] at h
  exact S.mulG_ne_zero d h.1 h.2

end SecpGroup

/-! ### the toy instance: ℤ/7 -/

def toyX (a : Fin 7) : UInt8 := if a.val ≤ 3 then UInt8.ofNat a.val else UInt8.ofNat (7 - a.val)

/-- the element with "x-coordinate" `x` (1..3) and the given parity -/
def toyPoint (x : UInt8) (odd : Bool) : Option (Fin 7) :=
  if x = 1 then some (if odd then 6 else 1)
  else if x = 2 then some (if odd then 5 else 2)
  else if x = 3 then some (if odd then 4 else 3)
  else none

def toyPad (k : Nat) (b : UInt8) : Bytes := List.replicate k 0 ++ [b]

def toy : CurveOps (Fin 7) where
  n := 7
  zero := 0
  add a b := a + b
  mulG k := Fin.ofNat 7 k
  xBytes a := toyPad 31 (toyX a)
  yOdd a := decide (3 < a.val)
  compress a := (if 3 < a.val then (3 : UInt8) else 2) :: toyPad 31 (toyX a)
  uncompress a := (4 : UInt8) :: (toyPad 31 (toyX a) ++ toyPad 31 (UInt8.ofNat a.val))
  parse bs :=
    match bs.length, bs with
    | 32, _ => toyPoint (bs.getLastD 0) false
    | 33, pre :: rest => if pre = 2 then toyPoint (rest.getLastD 0) false
                         else if pre = 3 then toyPoint (rest.getLastD 0) true else none
    | 65, pre :: rest =>
      if pre = 4 then
        match toyPoint ((rest.take 32).getLastD 0) (decide (3 < (rest.getLastD 0).toNat)) with
        | some a => if UInt8.ofNat a.val = rest.getLastD 0 then some a else none
        | none => none
      else none
    | _, _ => none

def toyGroup : SecpGroup toy where
  neg a := -a
  n_pos := by decide
  n_le := by decide
  add_comm := by decide
  add_assoc := by decide
  zero_add := by decide
  neg_add := by decide
  mulG_zero := by decide
  mulG_add := by
    intro a b
    show Fin.ofNat 7 (a + b) = Fin.ofNat 7 a + Fin.ofNat 7 b
    apply Fin.ext
    simp [Fin.ofNat, Fin.add_def]
  mulG_n := by decide
  mulG_ne_zero := by
    intro a h0 h7
    show Fin.ofNat 7 a ≠ 0
    intro h
    have := congrArg Fin.val h
    simp [Fin.ofNat] at this
    have h7' : a < 7 := h7
    omega

theorem toyCodec : PointCodec toy where
  compress_length := by decide
  uncompress_length := by decide
  xBytes_length := by decide
  parse_compress := by decide
  parse_uncompress := by decide

theorem toyXOnly : XOnly toy toyGroup where
  xBytes_neg := by decide
  yOdd_neg := by decide
  parse_xBytes := by decide

end BtcVerif.Proofs
