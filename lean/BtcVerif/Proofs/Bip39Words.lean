/-
  C14 — consequences of the kernel check of `Proofs/Bip39WordList.lean` (kept in a separate file so
  that editing them does not repeat the 20-second check).
-/
import BtcVerif.Proofs.Bip39WordList

namespace BtcVerif.Proofs.Bip39WordList
open BtcVerif

/-! ### consequences -/

theorem increasing_head {a : Nat} {l : List Nat} (h : increasing (a :: l) = true) :
    ∀ b ∈ l, a < b := by
  induction l generalizing a with
  | nil => intro b hb; cases hb
  | cons c t ih =>
    simp only [increasing, Bool.and_eq_true, decide_eq_true_eq] at h
    intro b hb
    rcases List.mem_cons.mp hb with rfl | hb
    · exact h.1
    · exact Nat.lt_trans h.1 (ih h.2 b hb)

theorem increasing_nodup {l : List Nat} (h : increasing l = true) : l.Nodup := by
  induction l with
  | nil => exact List.nodup_nil
  | cons a t ih =>
    have ht : increasing t = true := by
      cases t with
      | nil => rfl
      | cons c t' => simp only [increasing, Bool.and_eq_true] at h; exact h.2
    refine List.nodup_cons.mpr ⟨?_, ih ht⟩
    intro hm
    exact Nat.lt_irrefl a (increasing_head h a hm)

theorem specWords_length : specWords.length = 2048 := by
  have := check_specWords
  simp only [check, Bool.and_eq_true, decide_eq_true_eq] at this
  exact this.1.1

theorem specWords_nodup : specWords.Nodup := by
  have := check_specWords
  simp only [check, Bool.and_eq_true] at this
  have h := increasing_nodup this.2
  exact List.Pairwise.of_map key (fun a b hab heq => hab (by rw [heq])) h

theorem specWords_lower : ∀ w ∈ specWords, lowerWord w = true := by
  have := check_specWords
  simp only [check, Bool.and_eq_true, List.all_eq_true] at this
  exact this.1.2

/-- no word of the list contains a space -/
theorem specWords_no_space : ∀ w ∈ specWords, (0x20 : UInt8) ∉ w := by
  intro w hw hm
  have h := specWords_lower w hw
  simp only [lowerWord, Bool.and_eq_true, List.all_eq_true, decide_eq_true_eq] at h
  have := h.2 _ hm
  simp at this

end BtcVerif.Proofs.Bip39WordList
