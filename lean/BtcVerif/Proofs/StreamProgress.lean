/- C16 helper lemmas, part 6: the consumer is never blocked for ever — progress (deadlock freedom). -/
import BtcVerif.Proofs.StreamUnordered
namespace BtcVerif.Model.Stream
open BtcVerif.Gen.Guards

def RPhase.running : RPhase → Bool
  | .loop | .rel | .snd _ => true
  | _ => false

structure Inv4 (P : Params) (s : State) : Prop where
  ni : s.started = true → ∀ (i : Nat) (w : Worker), s.workers[i]? = some w → w.ph ≠ .idle
  ru : s.rph.running = true → s.started = true
  s0 : s.rph = .s0 → s.started = true ∨ P.lo = P.hi
  us : P.mode = .unordered → s.started = true
  cs : s.closedSeen = true → s.rph = .rel ∨ (∃ h, s.rph = .snd h) ∨ s.rph = .sendErr ∨ s.rph = .fin

theorem ni_set {ws : List Worker} {j : Nat} {w' : Worker}
    (h : ∀ (i : Nat) (w : Worker), ws[i]? = some w → w.ph ≠ .idle) (hw' : w'.ph ≠ .idle) :
    ∀ (i : Nat) (w : Worker), (ws.set j w')[i]? = some w → w.ph ≠ .idle := by
  intro i w hi
  rw [List.getElem?_set] at hi
  split at hi
  · split at hi
    · simp only [Option.some.injEq] at hi; subst hi; exact hw'
    · simp at hi
  · exact h i w hi

theorem advance_not_idle (P : Params) (w : Worker) : (advance P w).ph ≠ .idle := by
  simp only [advance]; split <;> simp

theorem inv4_init {P : Params} : Inv4 P (init P) := by
  refine ⟨?_, ?_, ?_, ?_, by simp [init]⟩
  · intro hs i w hw
    obtain ⟨_, rfl⟩ := initWorkers_get hw
    simp only [init, decide_eq_true_eq] at hs
    simp only [initWorker, hs, decide_true, if_true]
    split <;> simp
  · simp only [init]; split <;> simp [RPhase.running]
  · simp only [init]; split <;> simp
  · intro h; simp [init, h]

set_option maxHeartbeats 1600000 in
theorem inv4_step {P : Params} (hP : P.lo ≤ P.hi) {s l s'} (h1 : Inv1 P s) (h : Inv4 P s) (hst : Step P s l s') :
    Inv4 P s' := by
  obtain ⟨_, hI⟩ := step_inv hst
  obtain ⟨hni, hru, hs0, hus, hcs⟩ := h
  cases hI with
  | wLocal i w ph' l hw hl =>
    refine ⟨fun hs => ni_set (hni hs) (by cases hl <;> simp), ?_, ?_, ?_, ?_⟩ <;> simp_all [setW]
  | wGiveC i w g hw hp hm hc =>
    refine ⟨fun hs => ni_set (hni hs) (advance_not_idle P w), ?_, ?_, ?_, ?_⟩ <;> simp_all [setW]
  | wErrC i w hw hp hm hc =>
    refine ⟨fun hs => ni_set (hni hs) (by simp), ?_, ?_, ?_, ?_⟩ <;> simp_all [setW]
  | wGiveR i w g hw hp hm hr =>
    refine ⟨fun hs => ni_set (hni hs) (advance_not_idle P w), ?_, ?_, ?_, ?_⟩ <;> simp_all [setW, RPhase.running]
  | wErrR i w hw hp hm hr =>
    refine ⟨fun hs => ni_set (hni hs) (by simp), ?_, ?_, ?_, ?_⟩ <;> simp_all [setW, RPhase.running]
  | rF2ok hr | rF2nolink hr =>
    have hne : P.mode ≠ .unordered := by intro hm; have := (h1.un hm).1; simp_all
    unfold afterFirst
    simp only [blockscan_BlockScanner_streamBlocksUnordered_0]
    split
    · refine ⟨?_, ?_, ?_, ?_, ?_⟩ <;> simp_all [RPhase.running] <;> (try first | assumption | exact hni (by assumption))
    · have : ¬ (P.hi < P.lo + 1) := by omega
      simp only [this, decide_false, Bool.false_eq_true, if_false]
      refine ⟨?_, ?_, ?_, ?_, ?_⟩
      · intro _ i w hw
        obtain ⟨_, rfl⟩ := initWorkers_get hw
        simp only [initWorker, if_true]; split <;> simp
      all_goals simp_all [RPhase.running] <;> (try first | assumption | exact hni (by assumption))
  | rS0 hr hc =>
    unfold loopHead
    split
    · rename_i hle
      simp only at hle
      have : s.started = true := by rcases hs0 hr with h | h; exact h; omega
      refine ⟨?_, ?_, ?_, ?_, ?_⟩ <;> simp_all [RPhase.running] <;> (try first | assumption | exact hni (by assumption))
    · refine ⟨?_, ?_, ?_, ?_, ?_⟩ <;> simp_all [exitX, RPhase.running] <;> (try first | assumption | exact hni (by assumption))
  | rRelLoop hr hc1' hc2' =>
    unfold loopHead
    split <;> (refine ⟨?_, ?_, ?_, ?_, ?_⟩ <;> simp_all [exitX, RPhase.running] <;> (try first | assumption | exact hni (by assumption)))
  | closer hs hc hall | rF0 hr | rF1ok hr | rF1err hr | rF1b hr | rF2err hr | rLoopCancel hr hc | rLoopClosed hr hc
  | rRelSend hr h1' h2' | rRelErr hr h1' h2' | rSnd h hr hc | rSendErr hr hc
  | cCall hc hm' | cRetOk hc hm' hn | cSeeEnd hc hx | cDeliver h hc | cErr hc hm' | cRetErr hc hm' | cEnd hc hm'
  | envCancel hc =>
    refine ⟨?_, ?_, ?_, ?_, ?_⟩ <;> simp_all [exitX, RPhase.running] <;> (try first | assumption | exact hni (by assumption))

theorem reachable_inv4 {P : Params} (hP : P.lo ≤ P.hi) {s} (hr : Reachable P s) : Inv4 P s := by
  induction hr with
  | init => exact inv4_init
  | step hr' hst ih => exact inv4_step hP (reachable_inv1 hP hr') ih hst

theorem step_iff {P : Params} {s : State} {l : Label} {s' : State} :
    Step P s l s' ↔ s.panicked = false ∧
      ((l, s') ∈ forWorkers s.workers (wsteps P s) ∨ (l, s') ∈ closerSteps s ∨ (l, s') ∈ rsteps P s
        ∨ (l, s') ∈ csteps P s ∨ (l, s') ∈ envSteps s) := by
  unfold Step steps
  cases hp : s.panicked <;> simp [List.mem_append, or_assoc]

/-- a worker that is neither idle nor done can move as soon as the receiver of its queues is ready -/
theorem exists_worker_step {P : Params} {s : State} {i : Nat} {w : Worker}
    (hd : w.ph ≠ .done) (hi : w.ph ≠ .idle)
    (hu : P.mode = .unordered → s.cph = .call) (ho : P.mode ≠ .unordered → s.rph = .loop) :
    ∃ x ∈ wsteps P s i w, x.1 ≠ some .cancel := by
  unfold wsteps
  cases hph : w.ph with
  | idle => exact absurd hph hi
  | done => exact absurd hph hd
  | next => exact ⟨_, List.mem_cons_self, by simp⟩
  | hashWait => exact ⟨_, List.mem_cons_self, by simp⟩
  | blockReq => exact ⟨_, List.mem_cons_self, by simp⟩
  | blockWait => exact ⟨_, List.mem_cons_self, by simp⟩
  | offer g =>
    by_cases hm : P.mode = .unordered
    · simp [alt, hm, hu hm]
    · simp [alt, hm, ho hm]
  | offerErr =>
    by_cases hm : P.mode = .unordered
    · simp [alt, hm, hu hm]
    · simp [alt, hm, ho hm]

theorem not_allDone_exists {ws : List Worker} (h : allDone ws ≠ true) :
    ∃ (i : Nat) (w : Worker), ws[i]? = some w ∧ w.ph ≠ .done := by
  by_cases hex : ∃ (i : Nat) (w : Worker), ws[i]? = some w ∧ w.ph ≠ .done
  · exact hex
  · exfalso; apply h; rw [allDone_iff]
    intro i w hw
    by_cases hd : w.ph = .done
    · exact hd
    · exact absurd ⟨i, w, hw, hd⟩ hex

theorem consumer_progress_thm {P : Params} (hP : P.lo ≤ P.hi) {s} (hr : Reachable P s)
    (hc : s.cph ≠ .finished) : ∃ l s', Step P s l s' ∧ l ≠ some .cancel := by
  have h1 := reachable_inv1 hP hr
  have h4 := reachable_inv4 hP hr
  have hnp := h1.np
  -- it suffices to exhibit an element of one of the component lists
  suffices h : ∃ x, ((x ∈ forWorkers s.workers (wsteps P s) ∨ x ∈ closerSteps s ∨ x ∈ rsteps P s
      ∨ x ∈ csteps P s ∨ x ∈ envSteps s) ∧ x.1 ≠ some .cancel) by
    obtain ⟨⟨l, s'⟩, hx, hl⟩ := h
    exact ⟨l, s', step_iff.mpr ⟨hnp, hx⟩, hl⟩
  have wstep : ∀ (i : Nat) (w : Worker), s.workers[i]? = some w → w.ph ≠ .done → s.started = true →
      (P.mode = .unordered → s.cph = .call) → (P.mode ≠ .unordered → s.rph = .loop) →
      ∃ x, ((x ∈ forWorkers s.workers (wsteps P s) ∨ x ∈ closerSteps s ∨ x ∈ rsteps P s
      ∨ x ∈ csteps P s ∨ x ∈ envSteps s) ∧ x.1 ≠ some .cancel) := by
    intro i w hw hd hs hu ho
    obtain ⟨x, hx, hl⟩ := exists_worker_step (i := i) hd (h4.ni hs i w hw) hu ho
    exact ⟨x, .inl ((mem_forWorkers _ _ _).mpr ⟨i, w, hw, hx⟩), hl⟩
  cases hcp : s.cph with
  | finished => exact absurd hcp hc
  | idle =>
    refine ⟨(csteps P s).head (by simp [csteps, hcp]; split <;> (try split) <;> simp), ?_, ?_⟩
    · right; right; right; left; exact List.head_mem _
    · simp only [csteps, hcp]; split <;> (try split) <;> simp
  | got h => exact ⟨_, .inr (.inr (.inr (.inl (by simp only [csteps, hcp]; exact List.mem_cons_self)))), by simp⟩
  | gotErr =>
    by_cases hm : P.mode = .utxo
    · exact ⟨_, .inr (.inr (.inr (.inl (by simp only [csteps, hcp, hm, if_true]; exact List.mem_cons_self)))), by simp⟩
    · exact ⟨_, .inr (.inr (.inr (.inl (by simp only [csteps, hcp, hm, if_false]; exact List.mem_cons_self)))), by simp⟩
  | gotEnd =>
    by_cases hm : P.mode = .utxo
    · exact ⟨_, .inr (.inr (.inr (.inl (by
        simp only [csteps, hcp, hm, if_true, blockscan_BlockScanner_UpdateUtxos_1]; exact List.mem_cons_self)))), by simp⟩
    · exact ⟨_, .inr (.inr (.inr (.inl (by simp only [csteps, hcp, hm, if_false]; exact List.mem_cons_self)))), by simp⟩
  | call =>
    have seeEnd : s.streamClosed P = true → ∃ x, ((x ∈ forWorkers s.workers (wsteps P s) ∨ x ∈ closerSteps s
        ∨ x ∈ rsteps P s ∨ x ∈ csteps P s ∨ x ∈ envSteps s) ∧ x.1 ≠ some .cancel) := by
      intro hcl
      exact ⟨(none, { s with cph := .gotEnd }), .inr (.inr (.inr (.inl (by
        simp only [csteps, hcp]; rw [mem_alt]; exact ⟨hcl, rfl⟩)))), by simp⟩
    have closerStep : s.started = true → s.closed = false → allDone s.workers = true →
        ∃ x, ((x ∈ forWorkers s.workers (wsteps P s) ∨ x ∈ closerSteps s
        ∨ x ∈ rsteps P s ∨ x ∈ csteps P s ∨ x ∈ envSteps s) ∧ x.1 ≠ some .cancel) := by
      intro a b c
      exact ⟨(none, { s with closed := true }), .inr (.inl (by
        simp only [closerSteps]; rw [mem_alt]; exact ⟨by simp [a, b, c], rfl⟩)), by simp⟩
    by_cases hm : P.mode = .unordered
    · have hs := h4.us hm
      by_cases hall : allDone s.workers = true
      · cases hcl : s.closed
        · exact closerStep hs hcl hall
        · exact seeEnd (by simp [State.streamClosed, hm, hcl])
      · obtain ⟨i, w, hw, hd⟩ := not_allDone_exists hall
        exact wstep i w hw hd hs (fun _ => hcp) (fun h => absurd hm h)
    · have hro := h1.ro hm
      have rstep : (∃ x ∈ rsteps P s, x.1 ≠ some .cancel) → ∃ x, ((x ∈ forWorkers s.workers (wsteps P s)
          ∨ x ∈ closerSteps s ∨ x ∈ rsteps P s ∨ x ∈ csteps P s ∨ x ∈ envSteps s) ∧ x.1 ≠ some .cancel) := by
        rintro ⟨x, hx, hl⟩; exact ⟨x, .inr (.inr (.inl hx)), hl⟩
      cases hrp : s.rph with
      | absent => exact absurd hrp hro.1
      | f0 => exact rstep (by simp [rsteps, hrp])
      | f1 => exact rstep (by simp [rsteps, hrp])
      | f1b => exact rstep (by simp [rsteps, hrp])
      | f2 => exact rstep (by simp [rsteps, hrp])
      | s0 => exact rstep (by simp [rsteps, hrp, alt, hcp])
      | snd h => exact rstep (by simp [rsteps, hrp, alt, hcp])
      | sendErr => exact rstep (by simp [rsteps, hrp, alt, hcp])
      | rel => exact rstep (by simp only [rsteps, hrp]; split <;> (try split) <;> simp)
      | fin => exact seeEnd (by simp [State.streamClosed, hm, hro.2.1.mpr hrp])
      | loop =>
        have hs := h4.ru (by simp [hrp, RPhase.running])
        by_cases hcan : (s.cancel0 || s.cancel1) = true
        · exact rstep (by simp only [rsteps, hrp]; exact ⟨_, List.mem_append_left _ (mem_alt.mpr ⟨hcan, rfl⟩), by simp⟩)
        · cases hcl : s.closed
          · by_cases hall : allDone s.workers = true
            · exact closerStep hs hcl hall
            · obtain ⟨i, w, hw, hd⟩ := not_allDone_exists hall
              exact wstep i w hw hd hs (fun h => absurd h hm) (fun _ => hrp)
          · exact rstep (by simp only [rsteps, hrp]; exact ⟨_, List.mem_append_right _ (mem_alt.mpr ⟨hcl, rfl⟩), by simp⟩)

end BtcVerif.Model.Stream
