/- Oracle operations, group Address (C09). Strings travel as the hex of their bytes; the network is
   named `btc | tbtc | ltc | zec`, the format by the library's constant (`P2PKH` …, anything else is
   an unknown format). -/
import BtcVerif.Oracle.Util
import BtcVerif.Model.Address
import BtcVerif.Spec.Address
import BtcVerif.Prim.SHA256
import BtcVerif.Prim.RIPEMD160

namespace BtcVerif.Oracle
open BtcVerif BtcVerif.Model.Address

def primHashes : Hashes :=
  { hash160 := Prim.hash160, sha256 := Prim.sha256, cksum := fun x => (Prim.dsha256 x).take 4 }

def netOfName : String → Option Network
  | "btc" => some bitcoin
  | "tbtc" => some testnet
  | "ltc" => some litecoin
  | "zec" => some zcash
  | _ => none

def specNetOfName : String → Option Spec.Address.Net
  | "btc" => some Spec.Address.bitcoin
  | "tbtc" => some Spec.Address.testnet
  | "ltc" => some Spec.Address.litecoin
  | "zec" => some Spec.Address.zcash
  | _ => none

def fmtOfName : String → Format
  | "P2PKH" => .p2pkh
  | "P2SH" => .p2sh
  | "P2WPKH" => .p2wpkh
  | "P2WSH" => .p2wsh
  | _ => .other

def fmtName : Format → String
  | .p2pkh => "P2PKH"
  | .p2sh => "P2SH"
  | .p2wpkh => "P2WPKH"
  | .p2wsh => "P2WSH"
  | .other => "NONSTANDARD"

def specKindOfName : String → Option Spec.Address.Kind
  | "P2PKH" => some .p2pkh
  | "P2SH" => some .p2sh
  | "P2WPKH" => some .p2wpkh
  | "P2WSH" => some .p2wsh
  | _ => none

def opAddress (op : String) (args : List String) : Option String :=
  match op, args with
  | "addr.make", [n, f, d] => do
    let net ← netOfName n
    let d ← parseHex d
    some (outcomeStr hexOf (make primHashes net (fmtOfName f) d))
  | "addr.makehash", [n, f, h] => do
    let net ← netOfName n
    let h ← parseHex h
    some (outcomeStr hexOf (makeFromHash primHashes net (fmtOfName f) h))
  | "addr.ref", [n, f, h] => do
    let net ← specNetOfName n
    let k ← specKindOfName f
    let h ← parseHex h
    some (match Spec.Address.addressOfHash primHashes.cksum net k h with
      | some s => "ok " ++ hexOf s
      | none => "err")
  | "addr.dec", [n, s] => do
    let net ← netOfName n
    let s ← parseHex s
    some (outcomeStr (fun r => s!"{fmtName r.1} {hexOf r.2}") (decode primHashes net s))
  | "addr.dec58", [s] => do
    let s ← parseHex s
    some (outcomeStr (fun r => s!"{r.1} {hexOf r.2}") (decodeBase58Address primHashes s))
  | "addr.decbech", [s] => do
    let s ← parseHex s
    some (outcomeStr (fun r => s!"{hexOf r.1} {r.2.1} {hexOf r.2.2}") (decodeBech32Address s))
  | _, _ => none

end BtcVerif.Oracle
