/- Oracle operations, group Ecc (see /verif/CONVENTIONS.md). -/
import BtcVerif.Oracle.Util

namespace BtcVerif.Oracle
open BtcVerif

def opEcc (op : String) (args : List String) : Option String :=
  match op, args with
  | _, _ => none

end BtcVerif.Oracle
