/- Oracle operations, group Ecc (C04 ecc part, C05, C06; see /verif/CONVENTIONS.md, DESIGN.md appendix A).

   The model (`Model/ECC.lean`) is instantiated with the curve operations of `Prim.Secp256k1`
   (`secpOps`, ekliptic's `(0,0)` = infinity convention mapped onto `Option`), the RFC 6979 nonce
   of `Prim.RFC6979` and the BIP340 tagged hashes of `Prim.BIP340`.

   scalars / coordinates / r / s are big-endian hex of any length (`-` = zero); lists are
   comma-separated, `[]` is the empty list.

   pub.c|pub.u|pub.x <k>            → ok <hex> | panic                    getPublicKey*
   pub.iscomp <hex>                 → ok true|false                       isCompressedPublicKey
   point.dec <hex>                  → ok <x64> <y64> | err                deserializePoint
   point.dec.spec <hex>             → ok <x64> <y64> | err                Spec.parsePoint ∧ Prim.parsePoint
   point.enc <x> <y> c|u            → ok <hex> | panic                    serializePoint
   pub.compress|pub.uncompress <hex>→ ok <hex> | err | panic
   ecdh <priv> <pub>                → ok <hex32> | err | panic            deserialize, sharedSecret
   ecdh.sym <a> <b>                 → ok <hex32> | panic                  sharedSecret a (b·G)
   sum.priv <k,k,…>                 → ok <hex32> | err | panic
   sum.pub <x,x,…>                  → ok <hex32> | err | panic
   priv.new <stream>                → ok <hex32> | err
   ecdsa.sign <priv> <digest>       → ok <r64> <s64> | panic
   ecdsa.verify <pub> <digest> <r> <s>      → ok true|false | panic       Model.verifyECDSA
   ecdsa.verify.spec …                      → ok true|false               Spec.verifyECDSA ∧ Prim.ecdsaVerify
   schnorr.sign <priv> <msg> <aux>  → ok <sig64> | panic
   schnorr.verify <pub> <msg> <sig> → ok true|false | panic
   schnorr.verify.spec …            → ok true|false                       Spec.verifySchnorr ∧ Prim.schnorrVerify
   sig.encode <priv> <digest> <ht>  → ok <hex> | err | panic              signSigHash (DER + hash type)
   ecdsa.sign.ref <priv> <digest>   → ok <r64> <s64>                      Prim.ecdsaSign (harness-side assembly)
-/
import BtcVerif.Oracle.Util
import BtcVerif.Model.ECC
import BtcVerif.Model.DER
import BtcVerif.Spec.ECC
import BtcVerif.Prim.Secp256k1
import BtcVerif.Prim.RFC6979
import BtcVerif.Prim.ECDSA
import BtcVerif.Prim.BIP340

namespace BtcVerif.Oracle
open BtcVerif BtcVerif.Model.ECC

namespace EccImpl
open Prim.Secp256k1 in
def ofXY (P : Pt) : Prim.Secp256k1.Point := if P.1 == 0 && P.2 == 0 then none else some P

def toXY : Prim.Secp256k1.Point → Pt
  | none => (0, 0)
  | some q => q

/-- ekliptic's operations, computed by the independent secp256k1 implementation -/
def secpOps : CurveOps where
  p := Prim.Secp256k1.p
  n := Prim.Secp256k1.n
  gx := Prim.Secp256k1.Gx
  gy := Prim.Secp256k1.Gy
  sqrtExp := fun c => Prim.powMod c ((Prim.Secp256k1.p + 1) / 4) Prim.Secp256k1.p
  add := fun a b => toXY (Prim.Secp256k1.add (ofXY a) (ofXY b))
  mul := fun k P => toXY (Prim.Secp256k1.mul k (ofXY P))
  invN := Prim.Secp256k1.invModN

def secpSig : SigOps where
  nonce := Prim.rfc6979Nonce
  hAux := Prim.taggedHash "BIP0340/aux"
  hNonce := Prim.taggedHash "BIP0340/nonce"
  hChallenge := Prim.taggedHash "BIP0340/challenge"

def hex32 (v : Nat) : String := hexOf (beBytes 32 v)

def ptStr (P : Pt) : String := s!"{hex32 P.1} {hex32 P.2}"

def boolStr (b : Bool) : String := if b then "true" else "false"

def parseNat (s : String) : Option Nat := (parseHex s).map beNat

def parseList (s : String) : Option (List Bytes) :=
  if s == "[]" then some [] else (s.splitOn ",").mapM parseHex

/-- both references must agree, otherwise the answer matches nothing -/
def both (a b : String) : String := if a == b then a else s!"spec-disagree {a} / {b}"

end EccImpl
open EccImpl

def opEcc (op : String) (args : List String) : Option String :=
  match op, args with
  | "pub.c", [k] => do
    let k ← parseHex k
    some (outcomeStr hexOf (getPublicKeyCompressed secpOps k))
  | "pub.u", [k] => do
    let k ← parseHex k
    some (outcomeStr hexOf (getPublicKeyUncompressed secpOps k))
  | "pub.x", [k] => do
    let k ← parseHex k
    some (outcomeStr hexOf (getPublicKeySchnorr secpOps k))
  | "pub.iscomp", [k] => do
    let k ← parseHex k
    some ("ok " ++ boolStr (isCompressedPublicKey k))
  | "point.dec", [h] => do
    let bs ← parseHex h
    some (outcomeStr ptStr (deserializePoint secpOps bs))
  | "point.dec.spec", [h] => do
    let bs ← parseHex h
    let a := match Spec.ECC.parsePoint secpOps bs with | some P => "ok " ++ ptStr P | none => "err"
    let b := match Prim.Secp256k1.parsePoint bs with | some P => "ok " ++ ptStr P | none => "err"
    some (both a b)
  | "point.enc", [x, y, c] => do
    let x ← parseNat x
    let y ← parseNat y
    if c != "c" && c != "u" then none
    else some (outcomeStr hexOf (serializePoint secpOps (x, y) (c == "c")))
  | "pub.compress", [h] => do
    let bs ← parseHex h
    some (outcomeStr hexOf (compressPublicKey secpOps bs))
  | "pub.uncompress", [h] => do
    let bs ← parseHex h
    some (outcomeStr hexOf (uncompressPublicKey secpOps bs))
  | "ecdh", [k, pub] => do
    let k ← parseNat k
    let pub ← parseHex pub
    some (outcomeStr hexOf (deserializePoint secpOps pub >>= fun P => sharedSecret secpOps k P))
  | "ecdh.sym", [a, b] => do
    let a ← parseNat a
    let b ← parseNat b
    some (outcomeStr hexOf (mulBase secpOps b >>= fun P => sharedSecret secpOps a P))
  | "sum.priv", [ks] => do
    let ks ← parseList ks
    some (outcomeStr hexOf (sumPrivateKeys secpOps ks))
  | "sum.pub", [ks] => do
    let ks ← parseList ks
    some (outcomeStr hexOf (sumPublicKeys secpOps ks))
  | "priv.new", [s] => do
    let s ← parseHex s
    some (outcomeStr hexOf (newPrivateKey secpOps s))
  | "ecdsa.sign", [k, h] => do
    let k ← parseHex k
    let h ← parseHex h
    some (outcomeStr (fun rs => s!"{hex32 rs.1} {hex32 rs.2}") (signECDSA secpOps secpSig k h))
  | "ecdsa.sign.ref", [k, h] => do
    let k ← parseHex k
    let h ← parseHex h
    let rs := Prim.ecdsaSign (beNat k) h
    some s!"ok {hex32 rs.1} {hex32 rs.2}"
  | "ecdsa.verify", [pub, h, r, s] => do
    let pub ← parseHex pub
    let h ← parseHex h
    let r ← parseNat r
    let s ← parseNat s
    some (outcomeStr boolStr (verifyECDSA secpOps pub h r s))
  | "ecdsa.verify.spec", [pub, h, r, s] => do
    let pub ← parseHex pub
    let h ← parseHex h
    let r ← parseNat r
    let s ← parseNat s
    let a := Spec.ECC.verifyECDSA secpOps pub h r s
    let b := Prim.ecdsaVerify (Prim.Secp256k1.parsePoint pub) h r s
    some (both ("ok " ++ boolStr a) ("ok " ++ boolStr b))
  | "schnorr.sign", [k, m, aux] => do
    let k ← parseHex k
    let m ← parseHex m
    let aux ← parseHex aux
    some (outcomeStr hexOf (signSchnorr secpOps secpSig k m aux))
  | "schnorr.verify", [pub, m, sig] => do
    let pub ← parseHex pub
    let m ← parseHex m
    let sig ← parseHex sig
    some (outcomeStr boolStr (verifySchnorr secpOps secpSig pub m sig))
  | "schnorr.verify.spec", [pub, m, sig] => do
    let pub ← parseHex pub
    let m ← parseHex m
    let sig ← parseHex sig
    let a := Spec.ECC.verifySchnorr secpOps secpSig.hChallenge pub m sig
    let b := Prim.schnorrVerify pub m sig
    some (both ("ok " ++ boolStr a) ("ok " ++ boolStr b))
  | "sig.encode", [k, h, ht] => do
    let k ← parseHex k
    let h ← parseHex h
    let ht ← ht.toNat?
    some (outcomeStr hexOf (signSigHash secpOps secpSig h k ht))
  | _, _ => none

end BtcVerif.Oracle
