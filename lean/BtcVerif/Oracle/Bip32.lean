/- Oracle operations, group Bip32 (C07): the model of /repo/bip32 run with `Prim` (HMAC-SHA512,
   secp256k1, HASH160) as the independent implementation. -/
import BtcVerif.Oracle.Util
import BtcVerif.Model.Bip32
import BtcVerif.Spec.Bip32
import BtcVerif.Prim.HMAC
import BtcVerif.Prim.RIPEMD160

namespace BtcVerif.Oracle
open BtcVerif BtcVerif.Model BtcVerif.Model.Bip32

def pairStr (o : Outcome (Bytes × Bytes)) : String :=
  outcomeStr (fun r => s!"{hexOf r.1} {hexOf r.2}") o

/-- `-` is the empty path, otherwise decimal `uint32` values separated by commas -/
def parsePath (s : String) : Option (List Nat) :=
  if s == "-" then some [] else
  (s.splitOn ",").mapM fun t => do
    let v ← t.toNat?
    if v < 2 ^ 32 then some v else none

def opBip32 (op : String) (args : List String) : Option String :=
  match op, args with
  | "bip32.master", [s] => do
    let seed ← parseHex s
    some (pairStr (masterKey Prim.hmacSha512 seed))
  | "bip32.ckdpriv", [k, c, i] => do
    let k ← parseHex k
    let c ← parseHex c
    let i ← i.toNat?
    if i < 2 ^ 32 then some (pairStr (ckdPriv secp Prim.hmacSha512 k c i)) else none
  | "bip32.ckdpub", [k, c, i] => do
    let k ← parseHex k
    let c ← parseHex c
    let i ← i.toNat?
    if i < 2 ^ 32 then some (pairStr (ckdPub secp Prim.hmacSha512 k c i)) else none
  | "bip32.path", [kind, k, c, p] => do
    let k ← parseHex k
    let c ← parseHex c
    let p ← parsePath p
    if kind == "priv" then some (pairStr (derivePriv secp Prim.hmacSha512 k c p))
    else if kind == "pub" then some (pairStr (derivePub secp Prim.hmacSha512 k c p))
    else none
  -- the BIP32 transcription (independent of the regenerated guards) on in-domain inputs
  | "bip32.ckdpriv.spec", [k, c, i] => do
    let k ← parseHex k
    let c ← parseHex c
    let i ← i.toNat?
    if i < 2 ^ 32 ∧ k.length = 32 then
      match Spec.Bip32.ckdPriv secp Prim.hmacSha512 (beNat k) c i with
      | some (k', c') => some s!"ok {hexOf (beBytes 32 k')} {hexOf c'}"
      | none => some "skip"
    else none
  | "bip32.ckdpub.spec", [k, c, i] => do
    let k ← parseHex k
    let c ← parseHex c
    let i ← i.toNat?
    if i < 2 ^ 32 then
      match secp.parse k with
      | none => some "err"
      | some pt =>
        match Spec.Bip32.ckdPub secp Prim.hmacSha512 pt c i with
        | .child K' c' => some s!"ok {hexOf (secp.compress K')} {hexOf c'}"
        | .failure => some "err"
        | .invalid => some "skip"
    else none
  | "bip32.fp", [k] => do
    let k ← parseHex k
    some (outcomeStr hexOf (keyFingerprint secp Prim.hash160 k))
  | _, _ => none

end BtcVerif.Oracle
