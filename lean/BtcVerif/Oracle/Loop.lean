/- The request loop shared by the `oracle` executable and the per-group development executables. -/
import BtcVerif.Oracle.Util

namespace BtcVerif.Oracle

abbrev Handler := String → List String → Option String

def dispatch (handlers : List Handler) (op : String) (args : List String) : String :=
  -- `net.with <network> <op> <args…>`: an operation whose answer does not depend on the selected network,
  -- evaluated by the harness under another `constants.CurrentNetwork`: the model's answer is that of `<op>`
  let (op, args) := match op, args with
    | "net.with", _ :: op' :: rest => (op', rest)
    | _, _ => (op, args)
  match handlers.findSome? (fun h => h op args) with
  | some r => r
  | none => "bad-op"

def handleLine (handlers : List Handler) (line : String) : String :=
  match (line.trimAscii.toString.splitOn " ").filter (· ≠ "") with
  | [] => "bad-op"
  | op :: args => dispatch handlers op args

partial def loop (handlers : List Handler) (hin hout : IO.FS.Stream) : IO Unit := do
  let line ← hin.getLine
  if line.isEmpty then return ()
  hout.putStrLn (handleLine handlers line)
  hout.flush
  loop handlers hin hout

def runOracle (handlers : List Handler) : IO Unit := do
  loop handlers (← IO.getStdin) (← IO.getStdout)

end BtcVerif.Oracle
