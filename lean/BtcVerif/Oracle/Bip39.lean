/- Oracle operations, group Bip39 (C14; see /verif/CONVENTIONS.md and harness/bip39.go).

   A mnemonic argument is `.` (no words), `-` (one empty word) or the hex of the words joined by
   single spaces; both sides split it at every 0x20 byte (`strings.Split(s, " ")`) — the library
   itself never splits: `DecodeWords`/`DeriveSeed` take the slice of words. -/
import BtcVerif.Oracle.Util
import BtcVerif.Model.Bip39
import BtcVerif.Spec.Bip39

namespace BtcVerif.Oracle
open BtcVerif BtcVerif.Model.Bip39

/-- `strings.Split(s, " ")` on bytes -/
def splitSpaces (bs : Bytes) : List Bytes :=
  let r := bs.foldr (fun b (acc : Bytes × List Bytes) =>
    if b == 0x20 then ([], acc.1 :: acc.2) else (b :: acc.1, acc.2)) ([], [])
  r.1 :: r.2

def parseMnemonic (s : String) : Option (List Bytes) :=
  if s == "." then some [] else (parseHex s).map splitSpaces

def mnemonicStr (ws : List Bytes) : String :=
  if ws.isEmpty then "." else hexOf (joinWords ws)

/-- the independent copy of the word list, as bytes -/
def specWordList : List Bytes := Spec.Bip39.wordList.map utf8

/-- `bip39.enc`: the model's answer, cross-checked against the bit-level reference encoding of
    `Spec/Bip39.lean` over the pinned copy of the word list -/
def encAnswer (entropy : Bytes) : String :=
  let ref := Spec.Bip39.encode specWordList Prim.sha256 entropy
  match encodeGo entropy, ref with
  | .ok ws, some ws' => if ws == ws' then "ok " ++ mnemonicStr ws else "model-differs-from-reference"
  | .err, none => "err"
  | .panic, _ => "panic"
  | _, _ => "model-differs-from-reference"

def opBip39 (op : String) (args : List String) : Option String :=
  match op, args with
  | "bip39.enc", [e] => do
    let entropy ← parseHex e
    some (encAnswer entropy)
  | "bip39.dec", [m] => do
    let ws ← parseMnemonic m
    some (outcomeStr hexOf (decodeGo ws))
  | "bip39.seed", [m, p] => do
    let ws ← parseMnemonic m
    let pass ← parseHex p
    some ("ok " ++ hexOf (deriveSeedGo ws pass))
  | "bip39.gen", [n, r] => do
    let nWords ← n.toInt?
    let rand ← parseHex r
    some (outcomeStr mnemonicStr (generateMnemonic wordList sha256First rand nWords))
  | "bip39.pin", [] =>
    let txt := Spec.Bip39.wordList.flatMap fun w => utf8 w ++ [0x0a]
    some s!"ok {hexOf (Prim.sha256 txt)} {Spec.Bip39.wordList.length}"
  | _, _ => none

end BtcVerif.Oracle
