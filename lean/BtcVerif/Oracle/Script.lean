/- Oracle operations, group Script (property C12; `script.strip` is also used by C03).
   See /verif/CONVENTIONS.md and DESIGN.md appendix A.

   Canonical forms: bytes lower-case hex (`-` empty); a list of byte strings is comma separated,
   the empty list is `.`; chunks are `op:<hex byte>` / `push:<hex>`; integers decimal. -/
import BtcVerif.Oracle.Util
import BtcVerif.Model.Script
import BtcVerif.Prim.SHA256
import BtcVerif.Prim.RIPEMD160

namespace BtcVerif.Oracle
open BtcVerif BtcVerif.Model

namespace ScriptOps

def listStr (xs : List String) : String := if xs.isEmpty then "." else joinWith "," xs

def parseHexList (s : String) : Option (List Bytes) :=
  if s == "." then some [] else (s.splitOn ",").mapM parseHex

def chunkStr : Chunk → String
  | .op b => "op:" ++ hexOf [b]
  | .push d => "push:" ++ hexOf d

def formatStr : Format → String
  | .p2pkh => "P2PKH" | .p2sh => "P2SH" | .p2wpkh => "P2WPKH" | .p2wsh => "P2WSH"
  | .nonstandard => "NONSTANDARD"

def withRest {α} (f : α → String) : Outcome (α × Bytes) → String
  | .ok (a, rest) => s!"ok {f a} rest={hexOf rest}"
  | .err => "err"
  | .panic => "panic"

def parseInt (s : String) : Option Int := s.toInt?

def boolStr (b : Bool) : String := if b then "true" else "false"

end ScriptOps
open ScriptOps

def opScript (op : String) (args : List String) : Option String :=
  match op, args with
  | "push.data", [h] => do
    let d ← parseHex h
    some (outcomeStr hexOf (pushData d))
  | "read.data", [h] => do
    let s ← parseHex h
    some (withRest hexOf (readData s))
  | "push.num", [n] => do
    let v ← parseInt n
    some (outcomeStr hexOf (pushNumber v))
  | "read.num", [h] => do
    let s ← parseHex h
    some (withRest (fun (v : Int) => toString v) (readNumber s))
  | "script.decompile", [h] => do
    let s ← parseHex h
    some (outcomeStr (fun cs => listStr (cs.map chunkStr)) (decompile s))
  | "script.stackify", [h] => do
    let s ← parseHex h
    some (outcomeStr (fun xs => listStr (xs.map hexOf)) (stackify s))
  | "script.strip", [h, o] => do
    let s ← parseHex h
    let v ← o.toNat?
    if v ≥ 256 then none else
    some (outcomeStr hexOf (stripOpCode s (UInt8.ofNat v)))
  | "tpl.make", [kind, h] => do
    let d ← parseHex h
    match kind with
    | "p2pkh" => if d.length = 20 then some (outcomeStr hexOf (makeP2PKH d)) else none
    | "p2sh" => if d.length = 20 then some (outcomeStr hexOf (makeP2SH d)) else none
    | "p2wpkh" => if d.length = 20 then some (outcomeStr hexOf (makeP2WPKH d)) else none
    | "p2wsh" => if d.length = 32 then some (outcomeStr hexOf (makeP2WSH d)) else none
    | _ => none
  | "tpl.makefrom", [kind, h] => do
    let d ← parseHex h
    match kind with
    | "p2pkh" => some (outcomeStr hexOf (makeP2PKHFromPublicKey Prim.hash160 d))
    | "p2wpkh" => some (outcomeStr hexOf (makeP2WPKHFromPublicKey Prim.hash160 d))
    | "p2sh" => some (outcomeStr hexOf (makeP2SH (Prim.hash160 d)))      -- MakeP2SHFromScript
    | "p2wsh" => some (outcomeStr hexOf (makeP2WSH (Prim.sha256 d)))     -- MakeP2WSHFromScript
    | _ => none
  | "tpl.is", [kind, h] => do
    let s ← parseHex h
    match kind with
    | "p2pkh" => some (outcomeStr boolStr (isP2PKH s))
    | "p2sh" => some (outcomeStr boolStr (isP2SH s))
    | "p2wpkh" => some (outcomeStr boolStr (isP2WPKH s))
    | "p2wsh" => some (outcomeStr boolStr (isP2WSH s))
    | _ => none
  | "tpl.decode", [kind, h] => do
    let s ← parseHex h
    match kind with
    | "p2pkh" => some (outcomeStr hexOf (decodeP2PKH s))
    | "p2sh" => some (outcomeStr hexOf (decodeP2SH s))
    | "p2wpkh" => some (outcomeStr hexOf (decodeP2WPKH s))
    | "p2wsh" => some (outcomeStr hexOf (decodeP2WSH s))
    | _ => none
  | "tpl.classify", [h] => do
    let s ← parseHex h
    some (outcomeStr formatStr (classify s))
  | "p2ms", [m, ks] => do
    let mv ← m.toNat?
    let keys ← parseHexList ks
    some (outcomeStr hexOf (makeP2MS mv keys))
  | "opreturn", [h] => do
    let d ← parseHex h
    some (outcomeStr hexOf (makeOpReturn d))
  | "redeem.p2pkh", [a, b] => do
    let sig ← parseHex a
    let pk ← parseHex b
    some (outcomeStr hexOf (redeemP2PKH sig pk))
  | "redeem.p2sh", [a, b] => do
    let spk ← parseHex a
    let redeem ← parseHex b
    some (outcomeStr hexOf (redeemP2SH spk redeem))
  | "redeem.p2ms", [l] => do
    let sigs ← parseHexList l
    some (outcomeStr hexOf (redeemP2MS sigs))
  | "witness.p2wpkh", [a, b] => do
    let sig ← parseHex a
    let pk ← parseHex b
    some s!"ok {listStr ((witnessP2WPKH sig pk).map hexOf)}"
  | "witness.p2wsh", [a, b] => do
    let spk ← parseHex a
    let redeem ← parseHex b
    some (outcomeStr (fun xs => listStr (xs.map hexOf)) (witnessP2WSH spk redeem))
  | _, _ => none

end BtcVerif.Oracle
