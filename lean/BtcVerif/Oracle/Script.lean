/- Oracle operations, group Script (see /verif/CONVENTIONS.md). -/
import BtcVerif.Oracle.Util

namespace BtcVerif.Oracle
open BtcVerif

def opScript (op : String) (args : List String) : Option String :=
  match op, args with
  | _, _ => none

end BtcVerif.Oracle
