/- Oracle operations, group Hash (C20; see /verif/CONVENTIONS.md and harness/hash.go). -/
import BtcVerif.Oracle.Util
import BtcVerif.Model.MultiHasher

namespace BtcVerif.Oracle
open BtcVerif BtcVerif.Model.MultiHasher
open BtcVerif.Spec.MultiHasher (Op Out)

/-- `<hex>` | `-` | `rep:<hexbyte>:<count>` -/
def parseData (s : String) : Option Bytes :=
  match s.splitOn ":" with
  | ["rep", b, n] => do
    let bs ← parseHex b
    let k ← n.toNat?
    match bs with
    | [x] => some (List.replicate k x)
    | _ => none
  | [_] => parseHex s
  | _ => none

def parseChunks (s : String) : Option (List Bytes) :=
  if s == "." then some [] else (s.splitOn ",").mapM parseData

def parseStage : String → Option Stage
  | "sha256" => some sha256Stage
  | "sha512" => some sha512Stage
  | "rmd160" => some ripemd160Stage
  | _ => none

def parseStages (s : String) : Option (List Stage) :=
  if s == "-" then some [] else (s.splitOn ",").mapM parseStage

def parseMhOp (s : String) : Option Op :=
  if s == "s" then some (.sum [])
  else if s == "r" then some .reset
  else if s == "z" then some .size
  else if s == "b" then some .blockSize
  else if s.startsWith "w:" then (parseData (s.drop 2).toString).map .write
  else if s.startsWith "p:" then (parseData (s.drop 2).toString).map .sum
  else none

def parseMhOps (s : String) : Option (List Op) :=
  if s == "." then some [] else (s.splitOn ";").mapM parseMhOp

def outStr : Out → String
  | .wrote n => s!"w{n}"
  | .digest d => hexOf d
  | .unit => "r"
  | .num n => s!"{n}"

/-- the harness tags Size with `z` and BlockSize with `b`; the tag comes from the operation -/
def outStrFor : Op → Out → String
  | .size, .num n => s!"z{n}"
  | .blockSize, .num n => s!"b{n}"
  | _, o => outStr o

def zipOuts : List Op → List Out → List String
  | op :: ops, o :: os => outStrFor op o :: zipOuts ops os
  | _, _ => []

def opHash (op : String) (args : List String) : Option String :=
  match op, args with
  | "sha256", [d] => do
    let bs ← parseData d
    some s!"ok {hexOf (sha256 Prim.sha256 bs)}"
  | "dsha256", [d] => do
    let bs ← parseData d
    some s!"ok {hexOf (doubleSha256 Prim.sha256 bs)}"
  | "rmd160", [d] => do
    let bs ← parseData d
    some s!"ok {hexOf (ripemd160 ripemd160Stage bs)}"
  | "hash160", [d] => do
    let bs ← parseData d
    some s!"ok {hexOf (hash160 Prim.sha256 ripemd160Stage bs)}"
  | "tagged", [t, cs] => do
    let tag ← parseData t
    let chunks ← parseChunks cs
    some s!"ok {hexOf (taggedHash Prim.sha256 sha256Stage tag chunks)}"
  | "mh.run", [st, os] =>
    match parseStages st, parseMhOps os with
    | some stages, some ops =>
      match run stages ops with
      | .ok outs => some ("ok " ++ (if outs.isEmpty then "." else joinWith ";" (zipOuts ops outs)))
      | .err => some "err"
      | .panic => some "panic"
    | _, _ => none
  | _, _ => none

end BtcVerif.Oracle
