/- Oracle operations, group Codec (C08: Base58, Base58Check, Bech32). Strings travel as the hex of
   their bytes. -/
import BtcVerif.Oracle.Util
import BtcVerif.Model.Base58
import BtcVerif.Model.Bech32
import BtcVerif.Spec.Bech32
import BtcVerif.Prim.SHA256

namespace BtcVerif.Oracle
open BtcVerif

/-- `bhash.DoubleSha256(x)[:4]` -/
def cksum4 (x : Bytes) : Bytes := (Prim.dsha256 x).take 4

def bech32Str : Outcome (Bytes × Nat × Bytes) → String :=
  outcomeStr (fun r => s!"{hexOf r.1} {r.2.1} {hexOf r.2.2}")

def opCodec (op : String) (args : List String) : Option String :=
  match op, args with
  | "b58.enc", [d] => do
    let d ← parseHex d
    some ("ok " ++ hexOf (Model.Base58.encode d))
  | "b58.dec", [s] => do
    let s ← parseHex s
    some (outcomeStr hexOf (Model.Base58.decode s))
  | "b58c.enc", [d] => do
    let d ← parseHex d
    some ("ok " ++ hexOf (Model.Base58Check.encode cksum4 d))
  | "b58c.encv", [d, v] => do
    let d ← parseHex d
    let v ← v.toNat?
    if v ≥ 65536 then none else
    some ("ok " ++ hexOf (Model.Base58Check.encodeVersion cksum4 d v))
  | "b58c.dec", [s] => do
    let s ← parseHex s
    some (outcomeStr hexOf (Model.Base58Check.decode cksum4 s))
  | "bech32.enc", [h, v, d] => do
    let h ← parseHex h
    let v ← v.toNat?
    let d ← parseHex d
    if v ≥ 256 then none else
    some (outcomeStr hexOf (Model.Bech32.encode h v d))
  | "bech32.enc.spec", [h, v, d] => do
    let h ← parseHex h
    let v ← v.toNat?
    let d ← parseHex d
    some (match Spec.Bech32.bip173Encode h v d with | some s => "ok " ++ hexOf s | none => "err")
  | "bech32.dec", [s] => do
    let s ← parseHex s
    some (bech32Str (Model.Bech32.decode s))
  | "bech32.dec.spec", [s] => do
    let s ← parseHex s
    some (bech32Str (Spec.Bech32.bip173Decode s))
  | "bech32.validate", [s] => do
    let s ← parseHex s
    some (if Model.Bech32.validate s then "ok" else "err")
  | _, _ => none

end BtcVerif.Oracle
