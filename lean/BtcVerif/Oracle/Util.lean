/- Line-protocol utilities of the `oracle` executable (DESIGN.md appendix A). Core-only. -/
import BtcVerif.Model.Basic

namespace BtcVerif.Oracle
open BtcVerif

def hexDigit (n : Nat) : Char :=
  if n < 10 then Char.ofNat (48 + n) else Char.ofNat (87 + n)

def hexOf (bs : Bytes) : String :=
  if bs.isEmpty then "-" else
  String.ofList (bs.flatMap fun b => [hexDigit (b.toNat / 16), hexDigit (b.toNat % 16)])

def hexVal (c : Char) : Option Nat :=
  if '0' ≤ c ∧ c ≤ '9' then some (c.toNat - 48)
  else if 'a' ≤ c ∧ c ≤ 'f' then some (c.toNat - 87)
  else none

def parseHexChars : List Char → Option Bytes
  | [] => some []
  | a :: b :: rest => do
    let x ← hexVal a
    let y ← hexVal b
    let tl ← parseHexChars rest
    return UInt8.ofNat (16 * x + y) :: tl
  | _ => none

def parseHex (s : String) : Option Bytes :=
  if s == "-" then some [] else parseHexChars s.toList

def outcomeStr {α} (f : α → String) : Outcome α → String
  | .ok a => "ok " ++ f a
  | .err => "err"
  | .panic => "panic"

def joinWith (sep : String) (xs : List String) : String := sep.intercalate xs

end BtcVerif.Oracle
