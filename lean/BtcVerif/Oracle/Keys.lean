/- Oracle operations, group Keys (C10: WIF and extended keys; BIP38 is not modelled here yet).
   Strings travel as the hex of their bytes. -/
import BtcVerif.Oracle.Util
import BtcVerif.Model.Wif
import BtcVerif.Model.XKey
import BtcVerif.Prim.SHA256
import BtcVerif.Prim.Secp256k1

namespace BtcVerif.Oracle
open BtcVerif

def keysCk (x : Bytes) : Bytes := (Prim.dsha256 x).take 4

/-- the public-key check of `bip32.Deserialize`: a 33-byte compressed point on the curve -/
def keysPubOk (k : Bytes) : Bool := (Prim.Secp256k1.parsePoint k).isSome

def flagOf : String → Option Bool
  | "0" => some false
  | "1" => some true
  | _ => none

def opKeys (op : String) (args : List String) : Option String :=
  match op, args with
  | "wif.enc", [k, v, c] => do
    let k ← parseHex k
    let v ← v.toNat?
    let c ← flagOf c
    if v ≥ 256 then none else
    some (outcomeStr hexOf (Model.Wif.encode keysCk k v c))
  | "wif.dec", [s] => do
    let s ← parseHex s
    some (outcomeStr (fun r => s!"{hexOf r.1} {r.2.1} {if r.2.2 then 1 else 0}") (Model.Wif.decode keysCk s))
  | "wif.validate", [s] => do
    let s ← parseHex s
    some (if Model.Wif.validate keysCk s then "ok 1" else "ok 0")
  | "xkey.ser", [p, k, cc, fp, d, i, v] => do
    let p ← flagOf p
    let k ← parseHex k
    let cc ← parseHex cc
    let fp ← parseHex fp
    let d ← d.toNat?
    let i ← i.toNat?
    let v ← v.toNat?
    if d ≥ 256 ∨ i ≥ 4294967296 ∨ v ≥ 4294967296 then none else
    some ("ok " ++ hexOf (Model.XKey.serialize keysCk k cc fp d i v p))
  | "xkey.deser", [s] => do
    let s ← parseHex s
    some (outcomeStr (fun r => s!"{hexOf r.key} {hexOf r.chainCode} {hexOf r.parentFingerprint} {r.depth} {r.index} {r.version}")
      (Model.XKey.deserialize keysCk keysPubOk s))
  | _, _ => none

end BtcVerif.Oracle
