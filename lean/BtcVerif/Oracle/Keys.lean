/- Oracle operations, group Keys (see /verif/CONVENTIONS.md). -/
import BtcVerif.Oracle.Util

namespace BtcVerif.Oracle
open BtcVerif

def opKeys (op : String) (args : List String) : Option String :=
  match op, args with
  | _, _ => none

end BtcVerif.Oracle
