/- Oracle operations, group Keys (C10: WIF and extended keys; BIP38 is not modelled here yet).
   Strings travel as the hex of their bytes. -/
import BtcVerif.Oracle.Util
import BtcVerif.Model.Wif
import BtcVerif.Model.XKey
import BtcVerif.Model.Bip38
import BtcVerif.Model.Address
import BtcVerif.Prim.RIPEMD160
import BtcVerif.Prim.Scrypt
import BtcVerif.Prim.AES256
import BtcVerif.Prim.SHA256
import BtcVerif.Prim.Secp256k1

namespace BtcVerif.Oracle
open BtcVerif

def keysCk (x : Bytes) : Bytes := (Prim.dsha256 x).take 4

/-- the public-key check of `bip32.Deserialize`: a 33-byte compressed point on the curve -/
def keysPubOk (k : Bytes) : Bool := (Prim.Secp256k1.parsePoint k).isSome

def flagOf : String → Option Bool
  | "0" => some false
  | "1" => some true
  | _ => none

/-! ### BIP38 with the reference primitives -/

/-- `elliptic.Marshal(Compressed)` of a point; the point at infinity is written as zero coordinates -/
def serPoint (P : Option (Nat × Nat)) (compressed : Bool) : Bytes :=
  match P with
  | some Q => if compressed then Prim.Secp256k1.serCompressed Q else Prim.Secp256k1.serUncompressed Q
  | none => if compressed then 0x02 :: List.replicate 32 0 else 0x04 :: List.replicate 64 0

def bip38Hashes : Model.Address.Hashes :=
  { hash160 := Prim.hash160, sha256 := Prim.sha256, cksum := keysCk }

def bip38Prims : Model.Bip38.Prims where
  scrypt := Prim.scrypt
  aesEnc := Prim.aes256EncryptBlock
  aesDec := Prim.aes256DecryptBlock
  dsha256 := Prim.dsha256
  cksum := keysCk
  pubKey := fun k c => .ok (serPoint (Prim.Secp256k1.mul (beNat k) Prim.Secp256k1.G) c)
  p2pkh := fun pub => Model.Address.makeP2PKHFromPublicKey bip38Hashes Model.Address.bitcoin pub
  baseMul := fun k => .ok (serPoint (Prim.Secp256k1.mul (beNat k) Prim.Secp256k1.G) true)
  pointMul := fun pt k c =>
    match Prim.Secp256k1.parsePoint pt with
    | none => .err
    | some Q => .ok (serPoint (Prim.Secp256k1.mul (beNat k) (some Q)) c)
  mulModN := fun a b => beBytes 32 ((beNat a * beNat b) % Prim.Secp256k1.n)

def keyFlagStr (r : Bytes × Bool) : String := s!"{hexOf r.1} {if r.2 then 1 else 0}"

def opKeys (op : String) (args : List String) : Option String :=
  match op, args with
  | "wif.enc", [k, v, c] => do
    let k ← parseHex k
    let v ← v.toNat?
    let c ← flagOf c
    if v ≥ 256 then none else
    some (outcomeStr hexOf (Model.Wif.encode keysCk k v c))
  | "wif.dec", [s] => do
    let s ← parseHex s
    some (outcomeStr (fun r => s!"{hexOf r.1} {r.2.1} {if r.2.2 then 1 else 0}") (Model.Wif.decode keysCk s))
  | "wif.validate", [s] => do
    let s ← parseHex s
    some (if Model.Wif.validate keysCk s then "ok 1" else "ok 0")
  | "xkey.ser", [p, k, cc, fp, d, i, v] => do
    let p ← flagOf p
    let k ← parseHex k
    let cc ← parseHex cc
    let fp ← parseHex fp
    let d ← d.toNat?
    let i ← i.toNat?
    let v ← v.toNat?
    if d ≥ 256 ∨ i ≥ 4294967296 ∨ v ≥ 4294967296 then none else
    some ("ok " ++ hexOf (Model.XKey.serialize keysCk k cc fp d i v p))
  | "xkey.deser", [s] => do
    let s ← parseHex s
    some (outcomeStr (fun r => s!"{hexOf r.key} {hexOf r.chainCode} {hexOf r.parentFingerprint} {r.depth} {r.index} {r.version}")
      (Model.XKey.deserialize keysCk keysPubOk s))
  | "bip38.enc", [k, pw, c] => do
    let k ← parseHex k
    let pw ← parseHex pw
    let c ← flagOf c
    some (outcomeStr hexOf (Model.Bip38.encrypt bip38Prims k pw c))
  | "bip38.dec", [s, pw] => do
    let s ← parseHex s
    let pw ← parseHex pw
    some (outcomeStr keyFlagStr (Model.Bip38.decrypt bip38Prims s pw))
  | "bip38.icode", [r, pw] => do
    let r ← parseHex r
    let pw ← parseHex pw
    some (outcomeStr hexOf (Model.Bip38.intermediateCode bip38Prims r pw))
  | "bip38.icodelot", [r, pw, lot, sq] => do
    let r ← parseHex r
    let pw ← parseHex pw
    let lot ← lot.toNat?
    let sq ← sq.toNat?
    if lot ≥ 4294967296 ∨ sq ≥ 4294967296 then none else
    some (outcomeStr hexOf (Model.Bip38.intermediateCodeLot bip38Prims r pw lot sq))
  | "bip38.ecenc", [r, code, c] => do
    let r ← parseHex r
    let code ← parseHex code
    let c ← flagOf c
    some (outcomeStr hexOf (Model.Bip38.encryptIntermediateCode bip38Prims r code c))
  | _, _ => none

end BtcVerif.Oracle
