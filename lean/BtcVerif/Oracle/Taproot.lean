/- Oracle operations, group Taproot (C13): the model of /repo/taproot and of the MAST / P2TR part of
   /repo/script, run with `Prim` (SHA-256, secp256k1) as the independent implementation. -/
import BtcVerif.Oracle.Util
import BtcVerif.Model.Taproot
import BtcVerif.Prim.SHA256

namespace BtcVerif.Oracle
open BtcVerif BtcVerif.Model BtcVerif.Model.Bip32 BtcVerif.Model.Taproot

/-- hex digits up to the next `,` `)` or the end -/
def takeHexTok (cs : List Char) : List Char × List Char := cs.span fun c => c != ',' && c != ')'

def parseHexTok (cs : List Char) : Option Bytes :=
  if cs == ['-'] then some [] else parseHexChars cs

/-- compact tree syntax: `N` (nil) | `L<2 hex digits version>:<script hex or ->` |
    `H:<hash hex>` | `B(<tree>,<tree>)` -/
def parseTree : Nat → List Char → Option (Tree × List Char)
  | 0, _ => none
  | _ + 1, 'N' :: rest => some (.nil, rest)
  | _ + 1, 'L' :: a :: b :: ':' :: rest => do
    let v ← parseHexChars [a, b]
    let (tok, rest') := takeHexTok rest
    let s ← parseHexTok tok
    match v with
    | [v] => some (.leaf v s, rest')
    | _ => none
  | _ + 1, 'H' :: ':' :: rest => do
    let (tok, rest') := takeHexTok rest
    let h ← parseHexTok tok
    some (.hash h, rest')
  | fuel + 1, 'B' :: '(' :: rest => do
    let (l, rest1) ← parseTree fuel rest
    match rest1 with
    | ',' :: rest2 =>
      let (r, rest3) ← parseTree fuel rest2
      match rest3 with
      | ')' :: rest4 => some (.branch l r, rest4)
      | _ => none
    | _ => none
  | _ + 1, _ => none

def parseTreeStr (s : String) : Option Tree :=
  match parseTree (s.length + 1) s.toList with
  | some (t, []) => some t
  | _ => none

def opTaproot (op : String) (args : List String) : Option String :=
  match op, args with
  | "tap.tweakpub", [k, h] => do
    let k ← parseHex k
    let h ← parseHex h
    some (outcomeStr (fun r => s!"{hexOf r.1} {if r.2 then 1 else 0}") (tweakPub secp Prim.sha256 k h))
  | "tap.tweakpriv", [k, h] => do
    let k ← parseHex k
    let h ← parseHex h
    some (outcomeStr hexOf (tweakPriv secp Prim.sha256 k h))
  | "tap.leaf", [v, s] => do
    let v ← parseHex v
    let s ← parseHex s
    match v with
    | [v] => some s!"ok {hexOf (leafHash Prim.sha256 v s)}"
    | _ => none
  | "tap.branch", [a, b] => do
    let a ← parseHex a
    let b ← parseHex b
    some s!"ok {hexOf (branchHash Prim.sha256 a b)}"
  | "tap.tree", [t] => do
    let t ← parseTreeStr t
    some (outcomeStr hexOf (treeHash Prim.sha256 t))
  | "tap.p2tr", [k, t] => do
    let k ← parseHex k
    let t ← parseTreeStr t
    some (outcomeStr hexOf (makeP2TR secp Prim.sha256 k t))
  | "dead.build", [r] => do
    let r ← parseHex r
    some (outcomeStr hexOf (buildDead secp deadH r))
  | "dead.verify", [k, r] => do
    let k ← parseHex k
    let r ← parseHex r
    some (outcomeStr (fun _ => "valid") (verifyDead secp deadH k r))
  | _, _ => none

end BtcVerif.Oracle
