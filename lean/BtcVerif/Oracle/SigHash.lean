/- Oracle operations for C03: legacy and BIP143 signature hashes (model and specification). -/
import BtcVerif.Oracle.Util
import BtcVerif.Model.SigHash
import BtcVerif.Spec.SigHash
import BtcVerif.Spec.Script
import BtcVerif.Prim.SHA256

namespace BtcVerif.Oracle
open BtcVerif BtcVerif.Model BtcVerif.Prim

def parseTxArg (h : String) : Option Tx := do
  let bs ← parseHex h
  match decTx bs with
  | .ok (t, []) => some t
  | _ => none

def digestStr : Outcome Bytes → String
  | .ok d => "ok " ++ hexOf d
  | .err => "err"
  | .panic => "panic"

def opSigHash (op : String) (args : List String) : Option String :=
  match op, args with
  | "sighash.legacy", [t, n, s, ht] => do
    let tx ← parseTxArg t
    let nIn ← n.toNat?
    let sc ← parseHex s
    let h ← ht.toNat?
    some (digestStr (legacyDigest dsha256 tx nIn sc h))
  | "sighash.legacy.spec", [t, n, s, ht] => do
    -- consensus digest; only defined for an in-range input index
    let tx ← parseTxArg t
    let nIn ← n.toNat?
    let sc ← parseHex s
    let h ← ht.toNat?
    if nIn ≥ tx.inputs.length then some "undefined"
    else if Spec.legacyIsOne tx nIn h then some ("ok " ++ hexOf uint256One)
    else some ("ok " ++ hexOf (dsha256 (Spec.legacyPreimage tx nIn (Spec.removeStandalone sc opCodeSeparator) h)))
  | "sighash.bip143", [t, n, s, ht, amt] => do
    let tx ← parseTxArg t
    let nIn ← n.toNat?
    let sc ← parseHex s
    let h ← ht.toNat?
    let a ← amt.toNat?
    some (digestStr (bip143Digest dsha256 tx nIn sc h a))
  | "sighash.bip143.spec", [t, n, s, ht, amt] => do
    let tx ← parseTxArg t
    let nIn ← n.toNat?
    let sc ← parseHex s
    let h ← ht.toNat?
    let a ← amt.toNat?
    match tx.inputs[nIn]? with
    | some vin => some ("ok " ++ hexOf (dsha256 (Spec.bip143Preimage dsha256 tx vin nIn sc h a)))
    | none => some "undefined"
  | _, _ => none

end BtcVerif.Oracle
