/- Oracle operations, group Stream (see /verif/CONVENTIONS.md).

`stream.validate <mode> <from> <n> <p> <lazy> <chainseed> <faults> <cancel> <choices> <events>`
answers whether the observed event sequence is a trace of the transition system `Model/Stream.lean` for
the parameters (mode, from, from+n-1, p): `ok valid` | `ok invalid <index of the first impossible event>`.
The schedule fields (lazy … choices) describe how the harness produced the trace and are not read. -/
import BtcVerif.Oracle.Util
import BtcVerif.Model.Stream
import BtcVerif.Model.Reorder
import BtcVerif.Model.Rpc

namespace BtcVerif.Oracle
open BtcVerif
open BtcVerif.Model.Stream

namespace StreamOp

def parseMode : String → Option Mode
  | "o" => some .ordered
  | "u" => some .unordered
  | "x" => some .utxo
  | "e" => some .utxo      -- a scan that starts from an empty set: the same protocol
  | _ => none

/-- a height index relative to `from` (may be negative in a trace of broken code: then no event) -/
def parseHeight (lo : Nat) (cs : List Char) : Option Nat :=
  match cs with
  | '-' :: _ => none
  | _ => (String.ofList cs).toNat?.map (lo + ·)

def parseOutc : List Char → Option Outc
  | ['o'] => some .ok
  | ['e'] => some .err
  | ['n'] => some .nolink
  | _ => none

def parseKind : Char → Option Kind
  | 'h' => some .hash
  | 'b' => some .block
  | _ => none

def parseEvent (lo : Nat) (tok : String) : Option Event :=
  match tok with
  | "end" => some .endOfStream
  | "err" => some .error
  | "c" => some .cancel
  | "uo" => some (.utxoReturn true)
  | "ue" => some (.utxoReturn false)
  | _ =>
    match tok.toList with
    | 'd' :: rest => (parseHeight lo rest).map .deliver
    | 'q' :: rest =>
      match rest.reverse with
      | k :: hr => do
        let kind ← parseKind k
        let h ← parseHeight lo hr.reverse
        pure (.req h kind)
      | [] => none
    | 'r' :: rest =>
      match (String.ofList rest).splitOn ":" with
      | [a, o] =>
        match a.toList.reverse with
        | k :: hr => do
          let kind ← parseKind k
          let h ← parseHeight lo hr.reverse
          let oc ← parseOutc o.toList
          pure (.rsp h kind oc)
        | [] => none
      | _ => none
    | _ => none

/-- events up to the first token that is no event of the model (its index is then the verdict) -/
def parseEvents (lo : Nat) : List String → List Event × Option Nat
  | toks =>
    let rec go (i : Nat) (acc : List Event) : List String → List Event × Option Nat
      | [] => (acc.reverse, none)
      | t :: ts =>
        match parseEvent lo t with
        | some e => go (i + 1) (e :: acc) ts
        | none => (acc.reverse, some i)
    go 0 [] toks

def validate (mode from_ n p events : String) : Option String := do
  let m ← parseMode mode
  let lo ← from_.toNat?
  let n ← n.toNat?
  let p ← p.toNat?
  if n = 0 then none
  let P : Params := { mode := m, lo := lo, hi := lo + n - 1, p := p }
  if events = "*" then return "ok valid"
  let toks := if events = "-" then [] else events.splitOn ","
  let (es, bad) := parseEvents lo toks
  match firstInvalid P es, bad with
  | some i, _ => return s!"ok invalid {i}"
  | none, some i => return s!"ok invalid {i}"
  | none, none => return "ok valid"

/-! `reorder.run <from> <n> <events>`: the ordering buffer of `Model/Reorder.lean` on the block responses of an
observed run, in the order the transport released them (`r<k>b:o` the block of height from+k, `:n` a block
that links to nothing, `:w` a sibling of the block of height from+k-1), followed by the closed queue.
Answer: `ok <done|err|running> <heights handed out after the first, relative to from>`. -/

def reorderBlock (tok : String) : Option Model.Reorder.Blk :=
  match tok.toList with
  | 'r' :: rest =>
    match (String.ofList rest).splitOn ":" with
    | [a, o] =>
      match a.toList.reverse with
      | 'b' :: hr =>
        match (String.ofList hr.reverse).toNat? with
        | some k =>
          if k = 0 then none
          else match o with
            | "o" => some ⟨k + 1, k⟩
            | "n" => some ⟨1000000 + k, 2000000 + k⟩
            | "w" => some ⟨3000000 + k, k - 1⟩
            | _ => none
        | none => none
      | _ => none
    | _ => none
  | _ => none

def reorderIndex (b : Model.Reorder.Blk) : String :=
  if b.id ≥ 3000000 then toString (b.id - 3000000 - 1) else if b.id ≥ 1000000 then s!"x{b.id}" else toString (b.id - 1)

def reorderRun (from_ n events : String) : Option String := do
  let lo ← from_.toNat?
  let n ← n.toNat?
  if n = 0 then none
  let toks := if events = "-" then [] else events.splitOn ","
  let evs := (toks.filterMap reorderBlock).map Model.Reorder.Ev.blk ++ [Model.Reorder.Ev.closed]
  let s := Model.Reorder.run lo (lo + n - 1) 1 evs
  let res := match s.res with | .done => "done" | .err => "err" | .running => "running"
  return s!"ok {res} {",".intercalate (s.out.map reorderIndex)}"

/-! `rpc.classify <status> <body hex> <parseFails> <objNil> <errorNil> <resultNil>`: the verdict of
`Model/Rpc.lean` (`ok ok | cred | retry | format | rpc`) -/
def rpcFlag : String → Option Bool
  | "1" => some true
  | "0" => some false
  | _ => none

def rpcClassify (status body pf on en rn : String) : Option String := do
  let st ← status.toInt?
  let b ← parseHex body
  let f1 ← rpcFlag pf
  let f2 ← rpcFlag on
  let f3 ← rpcFlag en
  let f4 ← rpcFlag rn
  let bodyStr := String.ofList (b.map (fun x => Char.ofNat x.toNat))
  let r : Model.Rpc.Reply := ⟨st, bodyStr, f1, f2, f3, f4⟩
  return match Model.Rpc.classify r with
    | .ok => "ok ok" | .invalidCredentials => "ok cred" | .retry => "ok retry"
    | .invalidFormat => "ok format" | .rpcFailure => "ok rpc"

end StreamOp

def opStream (op : String) (args : List String) : Option String :=
  match op, args with
  | "stream.validate", [mode, from_, n, p, _lazy, _seed, _faults, _cancel, _choices, events] =>
    some ((StreamOp.validate mode from_ n p events).getD "err")
  | "rpc.classify", [st, body, pf, on, en, rn] => some ((StreamOp.rpcClassify st body pf on en rn).getD "err")
  | "reorder.run", [_mode, from_, n, _p, _lazy, _seed, _faults, _cancel, _choices, events] =>
    some ((StreamOp.reorderRun from_ n events).getD "err")
  | _, _ => none

end BtcVerif.Oracle
