/- Oracle operations, group Stream (see /verif/CONVENTIONS.md).

`stream.validate <mode> <from> <n> <p> <lazy> <chainseed> <faults> <cancel> <choices> <events>`
answers whether the observed event sequence is a trace of the transition system `Model/Stream.lean` for
the parameters (mode, from, from+n-1, p): `ok valid` | `ok invalid <index of the first impossible event>`.
The schedule fields (lazy … choices) describe how the harness produced the trace and are not read. -/
import BtcVerif.Oracle.Util
import BtcVerif.Model.Stream

namespace BtcVerif.Oracle
open BtcVerif
open BtcVerif.Model.Stream

namespace StreamOp

def parseMode : String → Option Mode
  | "o" => some .ordered
  | "u" => some .unordered
  | "x" => some .utxo
  | _ => none

/-- a height index relative to `from` (may be negative in a trace of broken code: then no event) -/
def parseHeight (lo : Nat) (cs : List Char) : Option Nat :=
  match cs with
  | '-' :: _ => none
  | _ => (String.ofList cs).toNat?.map (lo + ·)

def parseOutc : List Char → Option Outc
  | ['o'] => some .ok
  | ['e'] => some .err
  | ['n'] => some .nolink
  | _ => none

def parseKind : Char → Option Kind
  | 'h' => some .hash
  | 'b' => some .block
  | _ => none

def parseEvent (lo : Nat) (tok : String) : Option Event :=
  match tok with
  | "end" => some .endOfStream
  | "err" => some .error
  | "c" => some .cancel
  | "uo" => some (.utxoReturn true)
  | "ue" => some (.utxoReturn false)
  | _ =>
    match tok.toList with
    | 'd' :: rest => (parseHeight lo rest).map .deliver
    | 'q' :: rest =>
      match rest.reverse with
      | k :: hr => do
        let kind ← parseKind k
        let h ← parseHeight lo hr.reverse
        pure (.req h kind)
      | [] => none
    | 'r' :: rest =>
      match (String.ofList rest).splitOn ":" with
      | [a, o] =>
        match a.toList.reverse with
        | k :: hr => do
          let kind ← parseKind k
          let h ← parseHeight lo hr.reverse
          let oc ← parseOutc o.toList
          pure (.rsp h kind oc)
        | [] => none
      | _ => none
    | _ => none

/-- events up to the first token that is no event of the model (its index is then the verdict) -/
def parseEvents (lo : Nat) : List String → List Event × Option Nat
  | toks =>
    let rec go (i : Nat) (acc : List Event) : List String → List Event × Option Nat
      | [] => (acc.reverse, none)
      | t :: ts =>
        match parseEvent lo t with
        | some e => go (i + 1) (e :: acc) ts
        | none => (acc.reverse, some i)
    go 0 [] toks

def validate (mode from_ n p events : String) : Option String := do
  let m ← parseMode mode
  let lo ← from_.toNat?
  let n ← n.toNat?
  let p ← p.toNat?
  if n = 0 then none
  let P : Params := { mode := m, lo := lo, hi := lo + n - 1, p := p }
  if events = "*" then return "ok valid"
  let toks := if events = "-" then [] else events.splitOn ","
  let (es, bad) := parseEvents lo toks
  match firstInvalid P es, bad with
  | some i, _ => return s!"ok invalid {i}"
  | none, some i => return s!"ok invalid {i}"
  | none, none => return "ok valid"

end StreamOp

def opStream (op : String) (args : List String) : Option String :=
  match op, args with
  | "stream.validate", [mode, from_, n, p, _lazy, _seed, _faults, _cancel, _choices, events] =>
    some ((StreamOp.validate mode from_ n p events).getD "err")
  | _, _ => none

end BtcVerif.Oracle
