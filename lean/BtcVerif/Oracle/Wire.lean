/- Oracle operations for C01 / C02: wire codec, sizes, identifiers, merkle, target. -/
import BtcVerif.Oracle.Util
import BtcVerif.Model.Block
import BtcVerif.Prim.SHA256

namespace BtcVerif.Oracle
open BtcVerif BtcVerif.Model BtcVerif.Prim

def dumpPrevOut (p : PrevOut) : String := s!"{hexOf p.hash}:{p.index}"
def dumpIn (i : TxIn) : String := s!"{dumpPrevOut i.prev}:{hexOf i.script}:{i.sequence}"
def dumpOut (o : TxOut) : String := s!"{o.value}:{hexOf o.script}"
def dumpWit (w : Witness) : String := if w.isEmpty then "." else joinWith "," (w.map hexOf)
def dumpWits : Option (List Witness) → String
  | none => "none"
  | some ws => "[" ++ joinWith "|" (ws.map dumpWit) ++ "]"

def dumpTx (t : Tx) : String :=
  s!"ver={t.version} in=[{joinWith ";" (t.inputs.map dumpIn)}] out=[{joinWith ";" (t.outputs.map dumpOut)}] wit={dumpWits t.witnesses} lock={t.locktime}"

def encStr (o : Outcome Bytes) : String :=
  match o with | .ok b => hexOf b | .err => "err" | .panic => "panic"

def idStr (o : Outcome Bytes) : String :=
  match o with | .ok b => hexOf (dsha256 b).reverse | .err => "err" | .panic => "panic"

/-- everything the library exposes about a decoded transaction -/
def describeTx (t : Tx) : String :=
  s!"{dumpTx t} enc={encStr (encTx t true)} encnw={encStr (encTx t false)} size={sizeTx t true} sizenw={sizeTx t false} weight={weightTx t} vsize={vsizeTx t} txid={idStr (encTx t false)} wtxid={idStr (encTx t true)}"

def dumpHeader (h : Header) : String :=
  s!"ver={h.version} prev={hexOf h.prev} merkle={hexOf h.merkle} time={h.time} nbits={h.nbits} nonce={h.nonce}"

def targetStr (n : Nat) : String :=
  match targetModel n with | .ok t => toString t | .err => "err" | .panic => "panic"

def describeHeader (h : Header) : String :=
  s!"{dumpHeader h} enc={hexOf (encHeader h)} hash={hexOf (dsha256 (encHeader h)).reverse} target={targetStr h.nbits}"

def withRest {α} (f : α → String) : Outcome (α × Bytes) → String
  | .ok (a, rest) => s!"ok {f a} rest={hexOf rest}"
  | .err => "err"
  | .panic => "panic"

def hashPair (a b : Bytes) : Bytes := dsha256 (a ++ b)

def splitHashes : Bytes → List Bytes
  | [] => []
  | bs => if bs.length < 32 then [bs] else bs.take 32 :: splitHashes (bs.drop 32)
termination_by bs => bs.length
decreasing_by simp [List.length_drop]; omega

/-! ### parsing the canonical dump back into a value (so that the *encoder* can be compared on
    values the harness constructs, not only on values that came out of the decoder) -/

def stripPrefix? (s pre : String) : Option String :=
  if s.startsWith pre then some (s.drop pre.length).toString else none

def unbracket? (s : String) : Option String :=
  if s.startsWith "[" && s.endsWith "]" then some ((s.drop 1).dropEnd 1).toString else none

def splitNonEmpty (s : String) (sep : String) : List String :=
  if s.isEmpty then [] else s.splitOn sep

def parseIn (s : String) : Option TxIn :=
  match s.splitOn ":" with
  | [h, i, sc, q] => do
    let hb ← parseHex h
    let idx ← i.toNat?
    let scb ← parseHex sc
    let sq ← q.toNat?
    some ⟨⟨hb, idx⟩, scb, sq⟩
  | _ => none

def parseOut (s : String) : Option TxOut :=
  match s.splitOn ":" with
  | [v, sc] => do
    let val ← v.toNat?
    let scb ← parseHex sc
    some ⟨val, scb⟩
  | _ => none

def parseWit (s : String) : Option Witness :=
  if s == "." then some [] else (s.splitOn ",").mapM parseHex

def parseTxDump (args : List String) : Option Tx :=
  match args with
  | [v, i, o, w, l] => do
    let ver ← (← stripPrefix? v "ver=").toNat?
    let ins ← (splitNonEmpty (← unbracket? (← stripPrefix? i "in=")) ";").mapM parseIn
    let outs ← (splitNonEmpty (← unbracket? (← stripPrefix? o "out=")) ";").mapM parseOut
    let ws ← stripPrefix? w "wit="
    let wits ← (if ws == "none" then some none else do
      let body ← unbracket? ws
      let stacks ← (splitNonEmpty body "|").mapM parseWit
      some (some stacks))
    let lock ← (← stripPrefix? l "lock=").toNat?
    some ⟨ver, ins, outs, wits, lock⟩
  | _ => none

def wireOp (op : String) (args : List String) : Option String :=
  match op, args with
  | "tx.enc", dump => do
    let t ← parseTxDump dump
    some s!"ok enc={encStr (encTx t true)} encnw={encStr (encTx t false)} size={sizeTx t true} sizenw={sizeTx t false} weight={weightTx t} vsize={vsizeTx t} txid={idStr (encTx t false)} wtxid={idStr (encTx t true)}"
  | "varint.dec", [h] => do
    let bs ← parseHex h
    some (withRest (fun v => s!"{v} size={varintSize v} enc={hexOf (encVarint v)}") (decVarint bs))
  | "varint.enc", [n] => do
    let v ← n.toNat?
    some s!"ok {hexOf (encVarint v)} size={varintSize v}"
  | "prevout.dec", [h] => do
    let bs ← parseHex h
    some (withRest (fun p => s!"{dumpPrevOut p} enc={hexOf (encPrevOut p)}") (decPrevOut bs))
  | "in.dec", [h] => do
    let bs ← parseHex h
    some (withRest (fun i => s!"{dumpIn i} enc={hexOf (encTxIn i)} size={sizeTxIn i}") (decTxIn bs))
  | "out.dec", [h] => do
    let bs ← parseHex h
    some (withRest (fun o => s!"{dumpOut o} enc={hexOf (encTxOut o)} size={sizeTxOut o}") (decTxOut bs))
  | "wit.dec", [h] => do
    let bs ← parseHex h
    some (withRest (fun w => s!"{dumpWit w} enc={hexOf (encWitness w)} size={sizeWitness w}") (decWitness bs))
  | "tx.dec", [h] => do
    let bs ← parseHex h
    some (withRest describeTx (decTx bs))
  | "hdr.dec", [h] => do
    let bs ← parseHex h
    some (withRest describeHeader (decHeader bs))
  | "blk.dec", [h] => do
    let bs ← parseHex h
    some (withRest (fun b =>
      s!"{describeHeader b.header} ntx={b.txs.length} txids=[{joinWith "," (b.txs.map fun t => idStr (encTx t false))}] enc={encStr (encBlock b)} size={sizeBlock b} weight={weightBlock b}")
      (decBlock bs))
  | "stream.dec", [k, h] => do
    -- k transactions back to back followed by a sentinel that must remain unread
    let n ← k.toNat?
    let bs ← parseHex h
    some (withRest (fun ts => joinWith " / " (ts.map dumpTx)) (readMany decTx n bs))
  | "merkle.root", [h] => do
    -- internal byte order
    let bs ← parseHex h
    let hs := splitHashes bs
    match merkleModel hashPair (hs.length + 1) hs with
    | some r => some s!"ok {hexOf r}"
    | none => some "err"
  | "merkle.rootrpc", [h] => do
    let bs ← parseHex h
    let hs := (splitHashes bs).map List.reverse
    match merkleModel hashPair (hs.length + 1) hs with
    | some r => some s!"ok {hexOf r.reverse}"
    | none => some "err"
  | "nbits.target", [n] => do
    let v ← n.toNat?
    some (match targetModel v with | .ok t => s!"ok {t}" | .err => "err" | .panic => "panic")
  | _, _ => none

end BtcVerif.Oracle
