/- Oracle operations, group Utxo (C15): `utxo.run`, `fee.*`, `sat.*`. Formats: harness/utxo.go. -/
import BtcVerif.Oracle.Util
import BtcVerif.Model.Utxo
import BtcVerif.Model.Fee
import BtcVerif.Prim.SHA256

namespace BtcVerif.Oracle
open BtcVerif BtcVerif.Model BtcVerif.Prim
open BtcVerif.Model.Utxo (Entry State Op Out)

namespace UtxoOps

/-- `txn.Hash(false)` -/
def txidOf (t : Tx) : Option Bytes :=
  match encTx t false with
  | .ok bs => some (dsha256 bs)
  | _ => none

def hash32 (s : String) : Option Bytes := do
  let b ← parseHex s
  if b.length = 32 then some b else none

def u32? (s : String) : Option Nat := do
  let n ← s.toNat?
  if n < 4294967296 then some n else none

def u64? (s : String) : Option Nat := do
  let n ← s.toNat?
  if n < 18446744073709551616 then some n else none

def key? (h i : String) : Option PrevOut := do
  let hash ← hash32 h
  let idx ← u32? i
  some ⟨hash, idx⟩

def entryStr (e : Entry) : String :=
  s!"{hexOf e.1.hash}:{e.1.index}:{e.2.value}:{hexOf e.2.script}"

def listStr (l : List Entry) : String := "[" ++ joinWith "," (l.map entryStr) ++ "]"

def outStr : Out → String
  | .unit => "u"
  | .panic => "p"
  | .err => "e"
  | .found none => "nil"
  | .found (some e) => "f=" ++ entryStr e
  | .size n => s!"s={n}"
  | .list l => "l=" ++ listStr l

def parseWatched (s : String) : Option (List Bytes) :=
  if s == "_" then some [] else
  (s.splitOn ",").mapM fun p => if p == "-" then some [] else do
    let b ← parseHex p
    if b.isEmpty then none else some b

def parseOuts : List String → Option (List (Option PrevOut × TxOut))
  | [] => some []
  | h :: i :: v :: s :: rest => do
    let k ← key? h i
    let value ← u64? v
    let script ← parseHex s
    let tl ← parseOuts rest
    some ((some k, ⟨value, script⟩) :: tl)
  | _ => none

/-- `none`: malformed request; `some none`: a block that does not decode (answer `x`) -/
def parseOp (watched : List Bytes) (s : String) : Option (Option Op) :=
  match s.splitOn ":" with
  | ["a", h, i, v, sc] => do
    let k ← key? h i
    let value ← u64? v
    let script ← parseHex sc
    some (some (.add (some k) ⟨value, script⟩))
  | ["an"] => some (some (.add none ⟨0, []⟩))
  | ["ro", h, i] => do let k ← key? h i; some (some (.removeByOutpoint (some k)))
  | ["ron"] => some (some (.removeByOutpoint none))
  | ["rh", h, i] => do let k ← key? h i; some (some (.removeByHash k.hash k.index))
  | ["rt", t, i] => do
    let txid ← parseHex t
    let idx ← u32? i
    some (some (.removeByTxid txid idx))
  | ["go", h, i] => do let k ← key? h i; some (some (.getByOutpoint (some k)))
  | ["gon"] => some (some (.getByOutpoint none))
  | ["gh", h, i] => do let k ← key? h i; some (some (.getByHash k.hash k.index))
  | ["gt", t, i] => do
    let txid ← parseHex t
    let idx ← u32? i
    some (some (.getByTxid txid idx))
  | ["sz"] => some (some .size)
  | ["sl"] => some (some .slice)
  | ["cl"] => some (some .clone)
  | "n" :: rest => do let outs ← parseOuts rest; some (some (.new outs))
  | ["ub", b] => do
    let bs ← parseHex b
    match decBlock bs with
    | .ok (blk, _) => some (some (.updateFromBlock blk watched))
    | _ => some none
  | _ => none

def runOps (watched : List Bytes) : List String → State → List String → Option (State × List String)
  | [], s, acc => some (s, acc.reverse)
  | o :: rest, s, acc =>
    match parseOp watched o with
    | none => none
    | some none => runOps watched rest s ("x" :: acc)
    | some (some op) =>
      let r := Utxo.step txidOf s op
      runOps watched rest r.1 (outStr r.2 :: acc)

def utxoRun (w ops : String) : String :=
  match parseWatched w with
  | none => "bad-op"
  | some watched =>
    let opList := if ops == "_" then [] else ops.splitOn ";"
    match runOps watched opList none [] with
    | none => "bad-op"
    | some (s, outs) => s!"ok {joinWith ";" outs} final={listStr (Utxo.slice s)}"

/-! fees -/

def hex16 (n : Nat) : String :=
  String.ofList ((List.range 16).reverse.map fun i => hexDigit (n / 16 ^ i % 16))

def bitsStr (x : F64) : String := hex16 (F64.toBits x)

def parseTable (s : String) : Option (List (PrevOut × Nat)) :=
  if s == "_" then some [] else
  (s.splitOn ",").mapM fun p =>
    match p.splitOn ":" with
    | [h, i, v] => do
      let k ← key? h i
      let value ← u64? v
      some (k, value)
    | _ => none

def tableGet (tbl : List (PrevOut × Nat)) (p : PrevOut) : Option Nat :=
  (tbl.find? fun e => e.1 == p).map (·.2)

def natOut : Outcome Nat → String
  | .ok n => toString n
  | .err => "err"
  | .panic => "panic"

def f64Out : Outcome F64 → String
  | .ok x => bitsStr x
  | .err => "err"
  | .panic => "panic"

def rangeOut : Outcome (F64 × F64) → String
  | .ok (a, b) => bitsStr a ++ "," ++ bitsStr b
  | .err => "err"
  | .panic => "panic"

def feeTx (txHex tbl : String) : Option String := do
  let raw ← parseHex txHex
  let table ← parseTable tbl
  let get := tableGet table
  match decTx raw with
  | .ok (t, _) =>
    some s!"ok out={Fee.totalOutputValue t} in={natOut (Fee.totalInputValue get t)} fee={natOut (Fee.totalFeeValue get t)} vsize={vsizeTx t} rate={f64Out (Fee.feePerVByte get t)}"
  | .err => some "err"
  | .panic => some "panic"

def feeBlock (blkHex tbl : String) : Option String := do
  let raw ← parseHex blkHex
  let table ← parseTable tbl
  let get := tableGet table
  match decBlock raw with
  | .ok (b, _) =>
    some s!"ok ntx={b.txs.length} weight={weightBlock b} total={natOut (Fee.totalFeesForBlock get b)} range={rangeOut (Fee.feeRangeForBlock get b)} avg={f64Out (Fee.averageFeeForBlockPerVByte get b)}"
  | .err => some "err"
  | .panic => some "panic"

def feeNaive (h i s : String) : Option String := do
  let k ← key? h i
  let txHex : Bytes := if s == "_" then [] else s.toUTF8.toList
  some (match Fee.naivePrevOutValue (fun _ => some txHex) k with
    | .ok v => s!"ok {v}"
    | .err => "err"
    | .panic => "panic")

/-! satoshis -/

def parseBits (s : String) : Option F64 := do
  if s.length ≠ 16 then none
  let digits ← s.toList.mapM hexVal
  some (F64.ofBits (digits.foldl (fun acc d => 16 * acc + d) 0))

end UtxoOps

open UtxoOps in
def opUtxo (op : String) (args : List String) : Option String :=
  match op, args with
  | "utxo.run", [w, ops] => some (utxoRun w ops)
  | "fee.tx", [t, tbl] => some ((feeTx t tbl).getD "bad-op")
  | "fee.block", [b, tbl] => some ((feeBlock b tbl).getD "bad-op")
  | "fee.naive", [h, i, s] => some ((feeNaive h i s).getD "bad-op")
  | "sat.tobtc", [s] =>
    match u64? s with
    | some n => some ("ok " ++ bitsStr (Fee.satsToBitcoins n))
    | none => some "bad-op"
  | "sat.tosats", [b] =>
    match parseBits b with
    | some x => some (match Fee.bitcoinsToSats x with | some n => s!"ok {n}" | none => "undef")
    | none => some "bad-op"
  | "sat.round", [b] =>
    match parseBits b with
    | some x => some (match Fee.roundBitcoins x with | some y => "ok " ++ bitsStr y | none => "undef")
    | none => some "bad-op"
  | "sat.dec", [k] =>
    match u64? k with
    | some n =>
      -- the decimal literal k/10^8 parsed to the nearest double (strconv.ParseFloat is correctly rounded)
      let b := F64.ofRat false n 100000000
      some (match Fee.bitcoinsToSats b with | some v => s!"ok {bitsStr b} {v}" | none => "undef")
    | none => some "bad-op"
  | _, _ => none

end BtcVerif.Oracle
