/- Oracle operations, group DER (see /verif/CONVENTIONS.md). -/
import BtcVerif.Oracle.Util

namespace BtcVerif.Oracle
open BtcVerif

def opDER (op : String) (args : List String) : Option String :=
  match op, args with
  | _, _ => none

end BtcVerif.Oracle
