/- Oracle operations, group DER (C11; see /verif/CONVENTIONS.md and DESIGN.md appendix A).

   der.dec <hex>                → ok r=<dec> s=<dec> ht=<dec> | err | panic     (Model.DER.decode)
   der.dec.spec <hex>           → ok | err                                      (Spec.bip66)
   der.enc <r> <s> <ht>         → ok <hex> | err | panic                        (Model.DER.encode)
   der.encint <v>               → ok <hex> | err | panic                        (Model.DER.encodeBigInt)
   der.chk <v>                  → ok | err | panic                              (Model.DER.checkEncodable)
   `<r>`, `<s>`, `<v>` are decimal integers (a leading `-` for negative ones) or `nil`. -/
import BtcVerif.Oracle.Util
import BtcVerif.Model.DER
import BtcVerif.Spec.BIP66

namespace BtcVerif.Oracle
open BtcVerif BtcVerif.Model.DER

/-- `nil` | decimal integer with optional sign; outer `none` = unparsable -/
def derParseBigArg (s : String) : Option (Option Int) :=
  if s == "nil" then some none
  else match s.toInt? with
    | some z => some (some z)
    | none => none

def opDER (op : String) (args : List String) : Option String :=
  match op, args with
  | "der.dec", [h] => do
    let bs ← parseHex h
    some (outcomeStr (fun g => s!"r={g.r} s={g.s} ht={g.ht}") (decode bs))
  | "der.dec.spec", [h] => do
    let bs ← parseHex h
    some (if Spec.bip66 bs then "ok" else "err")
  | "der.enc", [r, s, ht] => do
    let r ← derParseBigArg r
    let s ← derParseBigArg s
    let ht ← ht.toNat?
    some (outcomeStr hexOf (encode r s ht))
  | "der.encint", [v] => do
    let v ← derParseBigArg v
    some (outcomeStr hexOf (encodeBigInt v))
  | "der.chk", [v] => do
    let v ← derParseBigArg v
    some (match checkEncodable v with | .ok _ => "ok" | .err => "err" | .panic => "panic")
  | _, _ => none

end BtcVerif.Oracle
